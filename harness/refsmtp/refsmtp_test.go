package refsmtp

import (
	"context"
	"testing"
	"time"

	mail "github.com/wneessen/go-mail"
)

func TestHappyPath(t *testing.T) {
	srv := NewServer(Script{Caps: []string{"8BITMIME", "DSN", "ENHANCEDSTATUSCODES"}})
	d := &Dialer{Srv: srv}
	c, err := mail.NewClient("ref.verif.example", mail.WithTLSPolicy(mail.NoTLS), mail.WithDialContextFunc(d.DialContext), mail.WithTimeout(2*time.Second), mail.WithHELO("client.verif.example"))
	if err != nil {
		t.Fatal(err)
	}
	m := mail.NewMsg()
	_ = m.From("a@verif.example")
	_ = m.To("b@verif.example", "c@verif.example")
	m.Subject("hi")
	m.SetBodyString(mail.TypeTextPlain, "hello\r\n.leading dot\r\n")
	if err := c.DialAndSendWithContext(context.Background(), m); err != nil {
		t.Fatal(err)
	}
	if !d.Wait(2 * time.Second) {
		t.Fatal("server did not finish")
	}
	s := d.Sessions[0]
	if len(s.Violations) != 0 {
		t.Fatalf("violations: %v\n%s", s.Violations, s.Transcript(50))
	}
	if len(s.Commits()) != 1 {
		t.Fatalf("commits: %d\n%s", len(s.Commits()), s.Transcript(50))
	}
	t.Log(s.Transcript(50))
	t.Logf("%q", s.Commits()[0].Payload[len(s.Commits()[0].Payload)-40:])
	if !s.QuitSeen || !s.SawEOF {
		t.Fatalf("quit=%v eof=%v", s.QuitSeen, s.SawEOF)
	}
}
