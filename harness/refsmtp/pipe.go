package refsmtp

import (
	"context"
	"errors"
	"io"
	"net"
	"os"
	"sync"
	"time"
)

// half is one direction of a buffered in-memory connection.
type half struct {
	mu     sync.Mutex
	cond   *sync.Cond
	buf    []byte
	closed bool // writer side closed: reader gets EOF after draining
	// capBytes > 0 bounds the buffer: writers block while it is full (0 = unbounded).
	capBytes int
}

func newHalf(capBytes int) *half {
	h := &half{capBytes: capBytes}
	h.cond = sync.NewCond(&h.mu)
	return h
}

// BufConn is one end of a buffered, in-memory, full-duplex connection with deadline support.
type BufConn struct {
	rd, wr     *half
	mu         sync.Mutex
	rdDeadline time.Time
	wrDeadline time.Time
	closed     bool
	closeCount int
	onClose    func()
	name       string
	// NoDeadlines makes every Set*Deadline call fail (a transport without deadline support).
	NoDeadlines bool
}

type pipeAddr string

func (a pipeAddr) Network() string { return "bufpipe" }
func (a pipeAddr) String() string  { return string(a) }

// NewBufPipe creates a connected pair. capBytes bounds each direction's buffer (0 = unbounded).
func NewBufPipe(capBytes int) (client, server *BufConn) {
	a, b := newHalf(capBytes), newHalf(capBytes)
	return &BufConn{rd: a, wr: b, name: "client"}, &BufConn{rd: b, wr: a, name: "server"}
}

func (c *BufConn) deadlineWaker(h *half, d time.Time) func() {
	if d.IsZero() {
		return func() {}
	}
	t := time.AfterFunc(time.Until(d)+time.Millisecond, func() {
		h.mu.Lock()
		h.cond.Broadcast()
		h.mu.Unlock()
	})
	return func() { t.Stop() }
}

func (c *BufConn) Read(p []byte) (int, error) {
	c.mu.Lock()
	d := c.rdDeadline
	c.mu.Unlock()
	stop := c.deadlineWaker(c.rd, d)
	defer stop()
	h := c.rd
	h.mu.Lock()
	defer h.mu.Unlock()
	for {
		c.mu.Lock()
		closed := c.closed
		d = c.rdDeadline
		c.mu.Unlock()
		if closed {
			return 0, io.ErrClosedPipe
		}
		if len(h.buf) > 0 {
			n := copy(p, h.buf)
			h.buf = h.buf[n:]
			h.cond.Broadcast()
			return n, nil
		}
		if h.closed {
			return 0, io.EOF
		}
		if !d.IsZero() && !time.Now().Before(d) {
			return 0, os.ErrDeadlineExceeded
		}
		if len(p) == 0 {
			return 0, nil
		}
		h.cond.Wait()
	}
}

func (c *BufConn) Write(p []byte) (int, error) {
	c.mu.Lock()
	d := c.wrDeadline
	c.mu.Unlock()
	stop := c.deadlineWaker(c.wr, d)
	defer stop()
	h := c.wr
	h.mu.Lock()
	defer h.mu.Unlock()
	written := 0
	for written < len(p) {
		c.mu.Lock()
		closed := c.closed
		d = c.wrDeadline
		c.mu.Unlock()
		if closed {
			return written, io.ErrClosedPipe
		}
		if h.closed {
			return written, io.ErrClosedPipe
		}
		if !d.IsZero() && !time.Now().Before(d) {
			return written, os.ErrDeadlineExceeded
		}
		room := len(p) - written
		if h.capBytes > 0 {
			room = h.capBytes - len(h.buf)
			if room <= 0 {
				h.cond.Wait()
				continue
			}
			if room > len(p)-written {
				room = len(p) - written
			}
		}
		h.buf = append(h.buf, p[written:written+room]...)
		written += room
		h.cond.Broadcast()
	}
	return written, nil
}

// Close closes this end: the peer reads EOF after draining, local reads/writes fail.
func (c *BufConn) Close() error {
	c.mu.Lock()
	c.closeCount++
	already := c.closed
	c.closed = true
	cb := c.onClose
	c.mu.Unlock()
	if already {
		return nil
	}
	for _, h := range []*half{c.wr, c.rd} {
		h.mu.Lock()
		if h == c.wr {
			h.closed = true
		}
		h.cond.Broadcast()
		h.mu.Unlock()
	}
	// the peer's writes into our read half must fail too
	c.rd.mu.Lock()
	c.rd.closed = true
	c.rd.cond.Broadcast()
	c.rd.mu.Unlock()
	if cb != nil {
		cb()
	}
	return nil
}

// Closed reports whether Close was called on this end.
func (c *BufConn) Closed() bool {
	c.mu.Lock()
	defer c.mu.Unlock()
	return c.closed
}

func (c *BufConn) LocalAddr() net.Addr  { return pipeAddr(c.name) }
func (c *BufConn) RemoteAddr() net.Addr { return pipeAddr("peer-of-" + c.name) }

// ErrNoDeadline is what a connection without deadline support answers (a tunnelled connection, e.g.
// the channel connections of golang.org/x/crypto/ssh).
var ErrNoDeadline = errors.New("verif: deadline not supported")

func (c *BufConn) SetDeadline(t time.Time) error {
	if c.NoDeadlines {
		return ErrNoDeadline
	}
	c.mu.Lock()
	c.rdDeadline, c.wrDeadline = t, t
	c.mu.Unlock()
	c.wake()
	return nil
}

func (c *BufConn) SetReadDeadline(t time.Time) error {
	if c.NoDeadlines {
		return ErrNoDeadline
	}
	c.mu.Lock()
	c.rdDeadline = t
	c.mu.Unlock()
	c.wake()
	return nil
}

func (c *BufConn) SetWriteDeadline(t time.Time) error {
	if c.NoDeadlines {
		return ErrNoDeadline
	}
	c.mu.Lock()
	c.wrDeadline = t
	c.mu.Unlock()
	c.wake()
	return nil
}

func (c *BufConn) wake() {
	for _, h := range []*half{c.rd, c.wr} {
		h.mu.Lock()
		h.cond.Broadcast()
		h.mu.Unlock()
	}
}

// ---------------------------------------------------------------------------------------------

// Dialer hands out in-memory connections served by a Server and records what happened.
type Dialer struct {
	Srv         *Server
	ImplicitTLS bool
	// PipeCap bounds the in-memory buffers (0 = unbounded). A small value makes a non-reading
	// server block the writer, like a real socket with full buffers.
	PipeCap int
	// FailDial makes the n-th dial (1-based) fail; 0 = never.
	FailDial int
	// NoDeadlines: the connections handed out do not support deadlines (every Set*Deadline fails).
	NoDeadlines bool

	mu       sync.Mutex
	Sessions []*Session
	Conns    []*BufConn
	dials    int
}

// ErrDialRefused is returned for dials the script refuses.
var ErrDialRefused = errors.New("verif: dial refused by script")

// DialContext implements mail.DialContextFunc.
func (d *Dialer) DialContext(ctx context.Context, network, address string) (net.Conn, error) {
	d.mu.Lock()
	d.dials++
	n := d.dials
	d.mu.Unlock()
	if d.FailDial != 0 && n == d.FailDial {
		return nil, ErrDialRefused
	}
	cl, sv := NewBufPipe(d.PipeCap)
	cl.NoDeadlines = d.NoDeadlines
	sess := d.Srv.Serve(sv, d.ImplicitTLS)
	d.mu.Lock()
	d.Sessions = append(d.Sessions, sess)
	d.Conns = append(d.Conns, cl)
	d.mu.Unlock()
	return cl, nil
}

// Wait waits until every server goroutine has finished (bounded); it returns false on time-out.
func (d *Dialer) Wait(timeout time.Duration) bool {
	d.mu.Lock()
	sessions := append([]*Session{}, d.Sessions...)
	d.mu.Unlock()
	deadline := time.After(timeout)
	for _, s := range sessions {
		select {
		case <-s.Done:
		case <-deadline:
			return false
		}
	}
	return true
}

// Shutdown releases stalls and closes every client end that is still open, then waits.
func (d *Dialer) Shutdown() bool {
	d.Srv.Release()
	d.mu.Lock()
	conns := append([]*BufConn{}, d.Conns...)
	d.mu.Unlock()
	for _, c := range conns {
		if !c.Closed() {
			// closing from the harness side must not count as the library's Close
			c.mu.Lock()
			c.closeCount--
			c.mu.Unlock()
			_ = c.Close()
		}
	}
	return d.Wait(5 * time.Second)
}

// ClosedByClient reports, per connection, whether the code under test called Close on it.
func (d *Dialer) ClosedByClient() []bool {
	d.mu.Lock()
	defer d.mu.Unlock()
	out := make([]bool, len(d.Conns))
	for i, c := range d.Conns {
		c.mu.Lock()
		out[i] = c.closeCount > 0
		c.mu.Unlock()
	}
	return out
}
