package refsmtp

import (
	"fmt"
	"net"
	"sync"
	"time"
)

// TCPListener serves real TCP connections with a Server.
type TCPListener struct {
	L           net.Listener
	Srv         *Server
	ImplicitTLS bool
	mu          sync.Mutex
	Sessions    []*Session
	done        chan struct{}
}

// ListenTCP listens on host:0 and serves every accepted connection.
func ListenTCP(host string, srv *Server, implicitTLS bool) (*TCPListener, error) {
	return ListenTCPPort(host, 0, srv, implicitTLS)
}

// ListenTCPPort listens on a given port (0 = any).
func ListenTCPPort(host string, port int, srv *Server, implicitTLS bool) (*TCPListener, error) {
	l, err := net.Listen("tcp", net.JoinHostPort(host, fmt.Sprint(port)))
	if err != nil {
		return nil, err
	}
	t := &TCPListener{L: l, Srv: srv, ImplicitTLS: implicitTLS, done: make(chan struct{})}
	go func() {
		defer close(t.done)
		for {
			c, err := l.Accept()
			if err != nil {
				return
			}
			t.mu.Lock()
			cur := t.Srv
			t.mu.Unlock()
			s := cur.Serve(c, implicitTLS)
			t.mu.Lock()
			t.Sessions = append(t.Sessions, s)
			t.mu.Unlock()
		}
	}()
	return t, nil
}

// SetServer changes the behaviour for the connections accepted from now on (the same address turns
// into "another server": a relay restarted with a different configuration).
func (t *TCPListener) SetServer(srv *Server) {
	t.mu.Lock()
	t.Srv = srv
	t.mu.Unlock()
}

// Port returns the port the listener is bound to.
func (t *TCPListener) Port() int { return t.L.Addr().(*net.TCPAddr).Port }

// Close stops accepting, releases stalls and waits (bounded) for the sessions to finish.
func (t *TCPListener) Close() []*Session { return t.CloseFrom(0) }

// CloseFrom is Close, but only the sessions from index first on are waited for (earlier ones may belong
// to connections the client deliberately left open).
func (t *TCPListener) CloseFrom(first int) []*Session {
	_ = t.L.Close()
	<-t.done
	t.mu.Lock()
	cur := t.Srv
	t.mu.Unlock()
	cur.Release()
	t.mu.Lock()
	ss := append([]*Session{}, t.Sessions...)
	t.mu.Unlock()
	deadline := time.After(3 * time.Second)
	for i, s := range ss {
		if i < first {
			continue
		}
		select {
		case <-s.Done:
		case <-deadline:
			return ss
		}
	}
	return ss
}

// SessionsSnapshot returns the sessions accepted so far.
func (t *TCPListener) SessionsSnapshot() []*Session {
	t.mu.Lock()
	defer t.mu.Unlock()
	return append([]*Session{}, t.Sessions...)
}
