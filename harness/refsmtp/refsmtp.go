// Package refsmtp is a strict, scriptable reference SMTP server used as an oracle: it parses
// every command with the RFC 5321 grammar, tracks the transaction state machine (Postfix-like
// strictness), records a byte tap, a transcript and a commit log, and answers from a reply
// script keyed by step id.
package refsmtp

import (
	"bufio"
	"bytes"
	"crypto/tls"
	"encoding/base64"
	"errors"
	"fmt"
	"io"
	"net"
	"strings"
	"sync"
	"time"
)

// Outcome is what the script does at a step.
type Outcome struct {
	Kind string `json:"kind"`           // ok | reply | drop | stall | garbage | dropafter (reply then close) | late | multiline (the positive reply on three lines)
	Code int    `json:"code,omitempty"` // for reply / dropafter
	Text string `json:"text,omitempty"` // reply text (a tag naming the step is appended)
	// DelayMS (kind "late"): the ordinary positive reply of the step is sent, but only after that many
	// milliseconds (a tarpitting or greylisting server that answers after the client's patience ran out).
	DelayMS int `json:"delay_ms,omitempty"`
}

// OK is the default outcome.
var OK = Outcome{Kind: "ok"}

// Script configures a server conversation.
type Script struct {
	Steps map[string]Outcome `json:"steps,omitempty"`
	// Caps are the EHLO keywords (lines after the greeting line), e.g. "8BITMIME", "AUTH PLAIN LOGIN".
	Caps []string `json:"caps"`
	// CapsTLS replace Caps after a successful STARTTLS (nil = Caps without STARTTLS).
	CapsTLS []string `json:"caps_tls,omitempty"`
	// DropInData >= 0: close the connection after that many bytes of message content were received
	// in the DataTxn-th DATA phase (1-based; 0 = every).
	DropInData int  `json:"drop_in_data,omitempty"`
	DropData   bool `json:"drop_data,omitempty"`
	DataTxn    int  `json:"data_txn,omitempty"`
	// StallInData: stop reading during that DATA phase after DropInData bytes (keeps the connection open).
	StallData bool `json:"stall_data,omitempty"`
	// NoGreetProbe disables the "bytes before greeting" probe (saves 2 ms per session).
	NoGreetProbe bool `json:"no_greet_probe,omitempty"`
	// JitterUS: per-reply delays in microseconds, cycled.
	JitterUS []int `json:"jitter_us,omitempty"`
	// RejectRcptPrefix: every RCPT whose path starts with this prefix is answered 550 (unless the
	// step has a scripted outcome of its own).
	RejectRcptPrefix string `json:"reject_rcpt_prefix,omitempty"`
	// DropDataRcptPrefix: a transaction with an accepted recipient whose path starts with this prefix
	// has its connection closed after DropInData bytes of content (whatever DropData/DataTxn say).
	DropDataRcptPrefix string `json:"drop_data_rcpt_prefix,omitempty"`
}

func (s *Script) outcome(step string) Outcome {
	if s.Steps != nil {
		if o, ok := s.Steps[step]; ok {
			return o
		}
	}
	return OK
}

// AuthIO lets an authentication handler talk to the client.
type AuthIO struct {
	sess *Session
	conn *connState
	n    int
	// Dropped is set when the script dropped the connection inside the exchange.
	Dropped bool
}

// ErrAuthAborted is returned when the client sends "*".
var ErrAuthAborted = errors.New("client aborted the exchange")

// Challenge sends "334 base64(challenge)" and returns the decoded client response.
func (a *AuthIO) Challenge(challenge []byte) ([]byte, error) {
	return a.Raw("334 " + base64.StdEncoding.EncodeToString(challenge))
}

// Raw sends an arbitrary reply line and reads one response line (decoded from base64).
func (a *AuthIO) Raw(line string) ([]byte, error) {
	a.n++
	stepID := fmt.Sprintf("authstep#%d", a.n)
	a.sess.Steps = append(a.sess.Steps, stepID)
	switch o := a.conn.srv.Script.outcome(stepID); o.Kind {
	case "stall":
		a.conn.srv.stall(a.conn)
		return nil, errors.New("stalled")
	case "drop":
		a.sess.Dropped = true
		a.Dropped = true
		return nil, errors.New("dropped")
	case "reply":
		line = fmt.Sprintf("%d %s", o.Code, o.Text)
	case "dropafter":
		// the challenge goes out, then the connection is closed: the client's next write fails
		a.conn.reply(line)
		_ = a.conn.raw.Conn.Close()
		a.sess.Dropped = true
		a.Dropped = true
		return nil, errors.New("dropped after the challenge")
	}
	a.conn.reply(line)
	a.conn.inAuth = true
	l, err := a.conn.readLine()
	a.conn.inAuth = false
	if err != nil {
		return nil, err
	}
	a.sess.AuthLines = append(a.sess.AuthLines, l)
	if l == "*" {
		return nil, ErrAuthAborted
	}
	d, err := base64.StdEncoding.DecodeString(l)
	if err != nil {
		a.sess.violate("auth-response-not-base64", "AUTH response line is not base64: %q", l)
		return nil, fmt.Errorf("response not base64: %q", l)
	}
	return d, nil
}

// AuthHandler runs one AUTH exchange. initial is nil when the AUTH command carried no initial
// response. It returns the final reply line ("235 ..." / "535 ..." / anything else).
type AuthHandler func(mech string, initial []byte, io *AuthIO, connState *tls.ConnectionState) string

// Server holds what is shared by the connections of one case.
type Server struct {
	Script  Script
	Auth    AuthHandler
	TLS     *tls.Config // for STARTTLS and implicit TLS
	Name    string
	release chan struct{}
	once    sync.Once
	// LateHook is called (on the session's goroutine) when a step with a "late" outcome is reached,
	// before the delay starts: the moment at which the client is waiting for that reply.
	LateHook func(step string)
	// DataHook is called (on the session's goroutine) right after a DATA command was answered 354, with
	// the number of the transaction on that connection: the client is about to send, or is sending, content.
	DataHook func(txn int)
}

// NewServer creates a server for one case.
func NewServer(script Script) *Server {
	return &Server{Script: script, Name: "ref.verif.example", release: make(chan struct{})}
}

// Release ends all stalls.
func (s *Server) Release() { s.once.Do(func() { close(s.release) }) }

// Rcpt is one accepted or rejected recipient of a transaction.
type Rcpt struct {
	Path     string   `json:"path"`   // as written between <>
	Params   []string `json:"params"` // esmtp parameters
	Accepted bool     `json:"accepted"`
	Step     string   `json:"step"`
}

// Txn is one mail transaction as seen by the server.
type Txn struct {
	N          int      `json:"n"`
	From       string   `json:"from"`
	FromParams []string `json:"from_params"`
	MailOK     bool     `json:"mail_ok"`
	Rcpts      []Rcpt   `json:"rcpts"`
	DataCmd    bool     `json:"data_cmd"`   // a DATA command was received
	DataOK     bool     `json:"data_ok"`    // ... and answered 354
	Payload    []byte   `json:"payload"`    // dot-unstuffed content (complete only if Terminated)
	Terminated bool     `json:"terminated"` // end-of-data line seen
	EODCode    int      `json:"eod_code"`   // reply given to end-of-data
	Committed  bool     `json:"committed"`  // Terminated and answered 2yz
	Reset      bool     `json:"reset"`      // ended by an accepted RSET
}

// Event is one transcript entry.
type Event struct {
	Dir  string `json:"dir"` // C, S, !
	Step string `json:"step,omitempty"`
	Line string `json:"line"`
}

// Violation is a protocol violation by the client.
type Violation struct {
	Key string `json:"key"`
	Msg string `json:"msg"`
}

// Session is everything the server observed on one connection.
type Session struct {
	mu         sync.Mutex
	Events     []Event
	Violations []Violation
	Txns       []*Txn
	Steps      []string          // step ids in order
	Replies    map[string]string // step id -> full reply text sent
	AuthLines  []string          // client lines during AUTH exchanges (raw)
	AuthCmds   []string          // AUTH command lines
	VrfyArgs   []string          // arguments of the VRFY commands received
	Cleartext  []byte            // every byte received before TLS (whole session if no TLS); set when the session ends
	tapMu      sync.Mutex
	tap        *tapConn
	TLSStarted bool
	// HandshakeBytes: what the client sent while a STARTTLS handshake that failed was running;
	// PostTLSFail: what it sent afterwards on the raw connection.
	HandshakeBytes []byte
	PostTLSFail    []byte
	TLSOK          bool
	TLSState       *tls.ConnectionState
	HelloArgs      []string
	SawEOF         bool // client closed (or we dropped)
	Dropped        bool // server closed on purpose
	Stalled        bool
	QuitSeen       bool
	Done           chan struct{}
	counts         map[string]int
	Caps           [][]string // capability sets sent, in order
}

func (s *Session) violate(key, format string, args ...interface{}) {
	s.Violations = append(s.Violations, Violation{key, fmt.Sprintf(format, args...)})
	s.Events = append(s.Events, Event{Dir: "!", Line: key + ": " + fmt.Sprintf(format, args...)})
}

// Transcript renders the conversation for messages.
func (s *Session) Transcript(max int) string {
	var sb strings.Builder
	ev := s.Events
	if len(ev) > max {
		ev = ev[len(ev)-max:]
	}
	for _, e := range ev {
		l := e.Line
		if len(l) > 200 {
			l = l[:200] + "..."
		}
		fmt.Fprintf(&sb, "%s %s\n", e.Dir, l)
	}
	return sb.String()
}

// TxnsSnapshot returns a copy of the transaction list that is safe to take while the session is
// still running (transactions are appended and completed under the session mutex).
func (s *Session) TxnsSnapshot() []Txn {
	s.mu.Lock()
	defer s.mu.Unlock()
	out := make([]Txn, 0, len(s.Txns))
	for _, t := range s.Txns {
		out = append(out, *t)
	}
	return out
}

// Commits returns the committed transactions.
func (s *Session) Commits() []*Txn {
	var out []*Txn
	for _, t := range s.Txns {
		if t.Committed {
			out = append(out, t)
		}
	}
	return out
}

type tapConn struct {
	net.Conn
	mu  sync.Mutex
	buf []byte
	on  bool
}

func (t *tapConn) Read(p []byte) (int, error) {
	n, err := t.Conn.Read(p)
	if n > 0 {
		t.mu.Lock()
		if t.on {
			t.buf = append(t.buf, p[:n]...)
		}
		t.mu.Unlock()
	}
	return n, err
}

type connState struct {
	srv    *Server
	sess   *Session
	raw    *tapConn
	conn   net.Conn
	br     *bufio.Reader
	nrep   int
	step   string
	wrErr  error
	inAuth bool
}

func (c *connState) jitter() {
	j := c.srv.Script.JitterUS
	if len(j) == 0 {
		return
	}
	d := j[c.nrep%len(j)]
	c.nrep++
	if d > 0 {
		time.Sleep(time.Duration(d) * time.Microsecond)
	}
}

// reply writes one (possibly multi-line, "\n"-separated) reply.
func (c *connState) reply(lines string) {
	c.jitter()
	for _, l := range strings.Split(lines, "\n") {
		c.sess.Events = append(c.sess.Events, Event{Dir: "S", Step: c.step, Line: l})
	}
	out := strings.ReplaceAll(lines, "\n", "\r\n") + "\r\n"
	if _, err := c.conn.Write([]byte(out)); err != nil {
		c.wrErr = err
	}
}

// readLine reads one CRLF-terminated line and reports line-discipline violations.
func (c *connState) readLine() (string, error) {
	b, err := c.br.ReadBytes('\n')
	if err != nil {
		if len(b) > 0 {
			c.sess.Events = append(c.sess.Events, Event{Dir: "C", Line: string(b) + "<EOF>"})
			c.sess.violate("unterminated-line", "connection ended inside a line: %q", string(b))
		}
		return "", err
	}
	line := string(b)
	if !strings.HasSuffix(line, "\r\n") {
		c.sess.violate("bare-lf", "line terminated by bare LF: %q", line)
		line = strings.TrimSuffix(line, "\n")
	} else {
		line = strings.TrimSuffix(line, "\r\n")
	}
	if strings.ContainsAny(line, "\r\n") {
		c.sess.violate("bare-cr", "bare CR inside a line: %q", line)
	}
	if strings.ContainsRune(line, 0) {
		c.sess.violate("nul-in-line", "NUL inside a line: %q", line)
	}
	// RFC 4954 section 4 raises the limit to 12288 octets for AUTH commands and responses
	limit := 512
	if c.inAuth || strings.HasPrefix(strings.ToUpper(line), "AUTH ") {
		limit = 12288
	}
	if len(line)+2 > limit {
		c.sess.violate("line-too-long", "command line of %d octets", len(line)+2)
	}
	c.sess.Events = append(c.sess.Events, Event{Dir: "C", Line: line})
	return line, nil
}

func (s *Session) next(verb string) int {
	s.counts[verb]++
	return s.counts[verb]
}

// Serve handles one connection. implicitTLS starts with a handshake.
func (s *Server) Serve(conn net.Conn, implicitTLS bool) *Session {
	sess := &Session{Replies: map[string]string{}, counts: map[string]int{}, Done: make(chan struct{})}
	go func() {
		defer close(sess.Done)
		s.serve(conn, implicitTLS, sess)
	}()
	return sess
}

// ServeSync handles one connection in the calling goroutine.
func (s *Server) ServeSync(conn net.Conn, implicitTLS bool) *Session {
	sess := &Session{Replies: map[string]string{}, counts: map[string]int{}, Done: make(chan struct{})}
	s.serve(conn, implicitTLS, sess)
	close(sess.Done)
	return sess
}

func (s *Server) stall(c *connState) {
	c.sess.Stalled = true
	// hold the connection open silently until released or the peer goes away
	done := make(chan struct{})
	go func() {
		buf := make([]byte, 256)
		for {
			if _, err := c.raw.Conn.Read(buf); err != nil {
				close(done)
				return
			}
		}
	}()
	select {
	case <-s.release:
	case <-done:
		c.sess.SawEOF = true
	}
}

// CleartextSoFar is the byte tap of a session that may still be running.
func (s *Session) CleartextSoFar() []byte {
	s.tapMu.Lock()
	t := s.tap
	s.tapMu.Unlock()
	if t == nil {
		return nil
	}
	t.mu.Lock()
	defer t.mu.Unlock()
	return append([]byte{}, t.buf...)
}

// stallNoRead holds the connection without reading (so a writer on a synchronous pipe blocks).
func (s *Server) stallNoRead(c *connState) {
	c.sess.Stalled = true
	<-s.release
}

func (s *Server) serve(rawConn net.Conn, implicitTLS bool, sess *Session) {
	tap := &tapConn{Conn: rawConn, on: true}
	sess.tapMu.Lock()
	sess.tap = tap
	sess.tapMu.Unlock()
	c := &connState{srv: s, sess: sess, raw: tap, conn: tap}
	defer func() {
		tap.mu.Lock()
		sess.Cleartext = append([]byte{}, tap.buf...)
		tap.mu.Unlock()
		_ = rawConn.Close()
	}()
	if implicitTLS {
		sess.TLSStarted = true
		tc := tls.Server(tap, s.TLS)
		_ = tap.SetDeadline(time.Now().Add(10 * time.Second))
		if err := tc.Handshake(); err != nil {
			sess.Events = append(sess.Events, Event{Dir: "!", Line: "implicit TLS handshake failed: " + err.Error()})
			return
		}
		_ = tap.SetDeadline(time.Time{})
		// cleartext = what arrived before/while the handshake ran; the tap stays on because for
		// implicit TLS everything is ciphertext anyway and the checker looks at the first byte
		sess.TLSOK = true
		st := tc.ConnectionState()
		sess.TLSState = &st
		c.conn = tc
		tap.mu.Lock()
		tap.on = false
		tap.mu.Unlock()
	}
	c.br = bufio.NewReader(c.conn)
	sc := &s.Script

	// greeting
	c.step = "greet"
	if !sc.NoGreetProbe && !implicitTLS {
		_ = c.conn.SetReadDeadline(time.Now().Add(2 * time.Millisecond))
		if b, err := c.br.Peek(1); err == nil && len(b) > 0 {
			sess.violate("bytes-before-greeting", "client sent data before the greeting")
		}
		_ = c.conn.SetReadDeadline(time.Time{})
	}
	sess.Steps = append(sess.Steps, "greet")
	switch o := sc.outcome("greet"); o.Kind {
	case "drop":
		sess.Dropped = true
		return
	case "stall":
		s.stall(c)
		return
	case "garbage":
		c.reply("\x16\x03\x01 not smtp")
	case "reply", "dropafter":
		txt := fmt.Sprintf("%d %s [greet]", o.Code, o.Text)
		sess.Replies["greet"] = txt
		c.reply(txt)
		if o.Kind == "dropafter" {
			sess.Dropped = true
			return
		}
	default:
		sess.Replies["greet"] = "220 " + s.Name + " ESMTP ready [greet]"
		c.reply(sess.Replies["greet"])
	}

	greeted := false // EHLO/HELO accepted since connect/STARTTLS
	esmtp := false
	var caps []string
	var txn *Txn // open transaction (MAIL accepted or attempted)
	inTxn := false
	dataN := 0
	lastEOD := 0
	abandonPending, abandonN := false, 0

	for {
		line, err := c.readLine()
		if err != nil {
			sess.SawEOF = true
			return
		}
		if c.br.Buffered() > 0 {
			sess.violate("pipelining", "client sent further bytes before the reply to %q was written (PIPELINING was not advertised)", clip(line))
		}
		cmd := parseCommand(line)
		for _, v := range cmd.problems {
			sess.violate(v.Key, "%s", v.Msg)
		}
		verb := cmd.verb
		// step id
		var step string
		switch verb {
		case "EHLO", "HELO", "NOOP", "RSET", "AUTH", "VRFY":
			step = fmt.Sprintf("%s#%d", strings.ToLower(verb), sess.next(verb))
		case "MAIL":
			step = fmt.Sprintf("mail#%d", sess.next("MAIL"))
		case "RCPT":
			step = fmt.Sprintf("rcpt#%d.%d", sess.counts["MAIL"], sess.next(fmt.Sprintf("RCPT%d", sess.counts["MAIL"])))
		case "DATA":
			step = fmt.Sprintf("data#%d", sess.counts["MAIL"])
			if sess.counts["DATA"+step] > 0 {
				step = fmt.Sprintf("%s.%d", step, sess.counts["DATA"+step]+1)
			}
			sess.counts["DATA"+step]++
		case "STARTTLS":
			step = "starttls"
		case "QUIT":
			step = "quit"
		default:
			step = fmt.Sprintf("unknown#%d", sess.next("UNKNOWN"))
		}
		c.step = step
		sess.Steps = append(sess.Steps, step)
		o := sc.outcome(step)
		if verb == "RSET" && abandonPending {
			// alias: the n-th RSET that abandons a transaction after a rejected MAIL, RCPT or DATA
			abandonN++
			if ao, ok := sc.Steps[fmt.Sprintf("rsetabandon#%d", abandonN)]; ok {
				o = ao
			}
			abandonPending = false
		}
		if verb == "RSET" && lastEOD > 0 {
			// alias: the RSET that follows the end-of-data of the lastEOD-th MAIL
			alias := fmt.Sprintf("rsetafter#%d", lastEOD)
			if ao, ok := sc.Steps[alias]; ok {
				o = ao
			}
			lastEOD = 0
		}
		if verb == "MAIL" {
			lastEOD = 0
		}
		send := func(def string) (code int) {
			// returns the code that was sent (0 for drop/stall/garbage)
			switch o.Kind {
			case "drop":
				sess.Dropped = true
				return -1
			case "stall":
				s.stall(c)
				return -1
			case "garbage":
				c.reply("this is not an SMTP reply")
				return 0
			case "multiline":
				// the ordinary positive reply of the step, spread over three lines ("250-...", "250-...", "250 ...")
				if len(def) > 4 && !strings.Contains(def, "\n") {
					def = def[:3] + "-" + def[4:] + "\n" + def[:3] + "-second line of the reply\n" + def[:3] + " third and last line"
				}
			case "late":
				if s.LateHook != nil {
					s.LateHook(step)
				}
				select {
				case <-time.After(time.Duration(o.DelayMS) * time.Millisecond):
				case <-s.release:
				}
			case "reply", "dropafter":
				txt := formatReply(o.Code, o.Text, step)
				sess.Replies[step] = txt
				c.reply(txt)
				if o.Kind == "dropafter" {
					sess.Dropped = true
					return -1
				}
				return o.Code
			}
			sess.Replies[step] = def
			c.reply(def)
			var code3 int
			fmt.Sscanf(def, "%3d", &code3)
			return code3
		}
		needGreeted := func() bool {
			if !greeted {
				sess.violate("command-before-helo", "%s before EHLO/HELO was accepted", verb)
				c.reply("503 5.5.1 send EHLO/HELO first [" + step + "]")
				sess.Replies[step] = "503 5.5.1 send EHLO/HELO first [" + step + "]"
				return false
			}
			return true
		}
		switch verb {
		case "EHLO", "HELO":
			sess.HelloArgs = append(sess.HelloArgs, cmd.rest)
			if inTxn {
				// EHLO resets the transaction (RFC 5321 4.1.4) — legal
				inTxn = false
				txn = nil
			}
			var def string
			if verb == "EHLO" {
				cs := sc.Caps
				if sess.TLSOK && !implicitTLS {
					if sc.CapsTLS != nil {
						cs = sc.CapsTLS
					} else {
						cs = nil
						for _, k := range sc.Caps {
							if k != "STARTTLS" {
								cs = append(cs, k)
							}
						}
					}
				}
				lines := []string{"250-" + s.Name + " greets you [" + step + "]"}
				for _, k := range cs {
					lines = append(lines, "250-"+k)
				}
				last := len(lines) - 1
				lines[last] = "250 " + lines[last][4:]
				def = strings.Join(lines, "\n")
				code := send(def)
				if code == -1 {
					return
				}
				if code >= 200 && code < 300 {
					greeted, esmtp = true, true
					if o.Kind == "ok" || o.Kind == "late" || o.Kind == "multiline" {
						caps = cs
					} else {
						caps = nil
					}
					sess.Caps = append(sess.Caps, caps)
				}
			} else {
				code := send("250 " + s.Name + " [" + step + "]")
				if code == -1 {
					return
				}
				if code >= 200 && code < 300 {
					greeted, esmtp = true, false
					caps = nil
					sess.Caps = append(sess.Caps, nil)
				}
			}
		case "STARTTLS":
			if !needGreeted() {
				continue
			}
			if sess.TLSOK {
				sess.violate("starttls-twice", "STARTTLS on an encrypted connection")
			}
			if !hasCap(caps, "STARTTLS") {
				sess.violate("starttls-not-advertised", "STARTTLS although not advertised")
			}
			code := send("220 2.0.0 ready to start TLS [" + step + "]")
			if code == -1 {
				return
			}
			if code != 220 {
				continue
			}
			if c.br.Buffered() > 0 {
				sess.violate("starttls-injection", "bytes buffered after STARTTLS")
			}
			sess.TLSStarted = true
			if ho := sc.outcome("tlshandshake"); ho.Kind == "stall" {
				sess.Steps = append(sess.Steps, "tlshandshake")
				s.stall(c)
				return
			} else if ho.Kind == "drop" {
				sess.Steps = append(sess.Steps, "tlshandshake")
				sess.Dropped = true
				return
			} else if ho.Kind == "garbage" {
				sess.Steps = append(sess.Steps, "tlshandshake")
				tap.mu.Lock()
				gmark := len(tap.buf)
				tap.mu.Unlock()
				_, _ = tap.Write([]byte("this is not a TLS record\r\n"))
				// give the client a moment to react, record what it sends (its ClientHello and whatever
				// follows) separately from the cleartext, then close
				_ = tap.SetReadDeadline(time.Now().Add(150 * time.Millisecond))
				_, _ = io.ReadAll(tap)
				tap.mu.Lock()
				sess.HandshakeBytes = append([]byte{}, tap.buf[gmark:]...)
				tap.buf = tap.buf[:gmark]
				tap.mu.Unlock()
				return
			}
			sess.Steps = append(sess.Steps, "tlshandshake")
			tap.mu.Lock()
			tap.on = true // keep tapping: a failed handshake may be followed by cleartext
			tap.mu.Unlock()
			mark := len(tap.buf)
			tc := tls.Server(tap, s.TLS)
			_ = tap.SetDeadline(time.Now().Add(10 * time.Second))
			err := tc.Handshake()
			_ = tap.SetDeadline(time.Time{})
			if err != nil {
				sess.Events = append(sess.Events, Event{Dir: "!", Line: "TLS handshake failed: " + err.Error()})
				// whatever the client sends now is on the raw connection; keep reading it as cleartext
				// for the tap (the client must send nothing but possibly QUIT)
				tap.mu.Lock()
				sess.HandshakeBytes = append([]byte{}, tap.buf[mark:]...)
				tap.buf = tap.buf[:mark] // drop the handshake bytes themselves
				tap.mu.Unlock()
				_ = tap.SetReadDeadline(time.Now().Add(300 * time.Millisecond))
				rest, _ := io.ReadAll(tap)
				sess.PostTLSFail = rest
				tap.mu.Lock()
				tap.buf = tap.buf[:mark]
				tap.mu.Unlock()
				sess.SawEOF = true
				return
			}
			tap.mu.Lock()
			tap.buf = tap.buf[:mark]
			tap.on = false
			tap.mu.Unlock()
			sess.TLSOK = true
			st := tc.ConnectionState()
			sess.TLSState = &st
			c.conn = tc
			c.br = bufio.NewReader(tc)
			greeted, esmtp, caps = false, false, nil
			inTxn, txn = false, nil
		case "AUTH":
			if !needGreeted() {
				continue
			}
			sess.AuthCmds = append(sess.AuthCmds, line)
			if !hasCapPrefix(caps, "AUTH") {
				sess.violate("auth-not-advertised", "AUTH although not advertised")
			}
			if inTxn {
				sess.violate("auth-in-transaction", "AUTH during a mail transaction")
			}
			if o.Kind == "late" {
				// the exchange itself goes on as usual, it only starts late
				if s.LateHook != nil {
					s.LateHook(step)
				}
				select {
				case <-time.After(time.Duration(o.DelayMS) * time.Millisecond):
				case <-s.release:
				}
			} else if o.Kind != "ok" && o.Kind != "multiline" {
				if send("") == -1 {
					return
				}
				continue
			}
			if s.Auth == nil {
				c.reply("504 5.5.4 mechanism not supported [" + step + "]")
				sess.Replies[step] = "504"
				continue
			}
			parts := strings.Fields(cmd.rest)
			mech := ""
			var initial []byte
			if len(parts) >= 1 {
				mech = strings.ToUpper(parts[0])
			}
			if len(parts) >= 2 {
				if parts[1] == "=" {
					initial = []byte{}
				} else if d, err := base64.StdEncoding.DecodeString(parts[1]); err == nil {
					initial = d
				} else {
					sess.violate("auth-initial-not-base64", "initial response is not base64: %q", parts[1])
					initial = []byte{}
				}
			}
			aio := &AuthIO{sess: sess, conn: c}
			final := s.Auth(mech, initial, aio, sess.TLSState)
			if final == "" || aio.Dropped || sess.Stalled {
				return // handler dropped the connection / the script stalled
			}
			final += " [" + step + "]"
			sess.Replies[step] = final
			c.reply(final)
		case "NOOP":
			if send("250 2.0.0 ok ["+step+"]") == -1 {
				return
			}
		case "VRFY":
			sess.mu.Lock()
			sess.VrfyArgs = append(sess.VrfyArgs, cmd.rest)
			sess.mu.Unlock()
			if send("250 2.1.5 <"+"someone@"+s.Name+"> ["+step+"]") == -1 {
				return
			}
		case "RSET":
			code := send("250 2.0.0 flushed [" + step + "]")
			if code == -1 {
				return
			}
			if code >= 200 && code < 300 {
				if txn != nil && inTxn {
					txn.Reset = true
				}
				inTxn, txn = false, nil
			}
		case "MAIL":
			if !needGreeted() {
				continue
			}
			if inTxn {
				sess.violate("nested-mail", "MAIL while a transaction is open (previous MAIL FROM:<%s>)", txn.From)
				c.reply("503 5.5.1 nested MAIL command [" + step + "]")
				sess.Replies[step] = "503 5.5.1 nested MAIL command [" + step + "]"
				continue
			}
			t := &Txn{N: len(sess.Txns) + 1, From: cmd.path, FromParams: cmd.params}
			sess.mu.Lock()
			sess.Txns = append(sess.Txns, t)
			sess.mu.Unlock()
			checkParams(sess, "MAIL", cmd.params, caps, esmtp)
			code := send("250 2.1.0 sender ok [" + step + "]")
			if code == -1 {
				return
			}
			if code >= 200 && code < 300 {
				t.MailOK = true
				txn, inTxn = t, true
			} else {
				abandonPending = true
			}
		case "RCPT":
			if !needGreeted() {
				continue
			}
			if !inTxn {
				sess.violate("rcpt-without-mail", "RCPT without an accepted MAIL")
				c.reply("503 5.5.1 need MAIL first [" + step + "]")
				sess.Replies[step] = "503 5.5.1 need MAIL first [" + step + "]"
				continue
			}
			if txn.DataCmd {
				sess.violate("rcpt-after-data", "RCPT after DATA in the same transaction")
			}
			checkParams(sess, "RCPT", cmd.params, caps, esmtp)
			r := Rcpt{Path: cmd.path, Params: cmd.params, Step: step}
			def := "250 2.1.5 recipient ok [" + step + "]"
			if sc.RejectRcptPrefix != "" && strings.HasPrefix(cmd.path, sc.RejectRcptPrefix) {
				def = "550 5.1.1 no such user [" + step + "]"
			}
			code := send(def)
			if code == -1 {
				txn.Rcpts = append(txn.Rcpts, r)
				return
			}
			r.Accepted = code >= 200 && code < 300
			if !r.Accepted {
				abandonPending = true
			}
			txn.Rcpts = append(txn.Rcpts, r)
		case "DATA":
			if !needGreeted() {
				continue
			}
			if !inTxn {
				sess.violate("data-without-mail", "DATA without an open transaction")
				c.reply("503 5.5.1 need MAIL first [" + step + "]")
				sess.Replies[step] = "503 5.5.1 need MAIL first [" + step + "]"
				continue
			}
			acc, rej := 0, 0
			for _, r := range txn.Rcpts {
				if r.Accepted {
					acc++
				} else {
					rej++
				}
			}
			if acc == 0 {
				sess.violate("data-without-rcpt", "DATA without an accepted recipient")
				c.reply("554 5.5.1 no valid recipients [" + step + "]")
				sess.Replies[step] = "554 5.5.1 no valid recipients [" + step + "]"
				continue
			}
			if rej > 0 {
				sess.violate("data-after-rejected-rcpt", "DATA although %d recipient(s) of the message were rejected", rej)
			}
			txn.DataCmd = true
			dataN++
			code := send("354 end data with <CR><LF>.<CR><LF> [" + step + "]")
			if code == -1 {
				return
			}
			if code != 354 {
				// transaction stays open; the client has to RSET (or QUIT/close)
				abandonPending = true
				continue
			}
			txn.DataOK = true
			if s.DataHook != nil {
				s.DataHook(sess.counts["MAIL"])
			}
			thisTxn := sc.DataTxn == 0 || sc.DataTxn == dataN
			limit := -1
			if (sc.DropData || sc.StallData) && thisTxn {
				limit = sc.DropInData
			}
			if sc.DropDataRcptPrefix != "" {
				for _, r := range txn.Rcpts {
					if strings.HasPrefix(r.Path, sc.DropDataRcptPrefix) {
						limit = sc.DropInData
					}
				}
			}
			payload, terminated, aborted := c.readData(limit, sc.StallData && thisTxn, s)
			sess.mu.Lock()
			txn.Payload = payload
			txn.Terminated = terminated
			sess.mu.Unlock()
			if aborted {
				return
			}
			if !terminated {
				sess.SawEOF = true
				return
			}
			eod := fmt.Sprintf("eod#%d", sess.counts["MAIL"])
			c.step = eod
			sess.Steps = append(sess.Steps, eod)
			o = sc.outcome(eod)
			step = eod
			// the commit is recorded before the reply goes out, so a client that has read the reply
			// can rely on seeing it
			willCommit := o.Kind == "ok" || o.Kind == "multiline" || o.Kind == "late" || ((o.Kind == "reply" || o.Kind == "dropafter") && o.Code >= 200 && o.Code < 300)
			sess.mu.Lock()
			txn.Committed = willCommit
			sess.mu.Unlock()
			code = send("250 2.0.0 queued [" + eod + "]")
			txn.EODCode = code
			if code == -1 {
				txn.EODCode = 0
				inTxn = false
				return
			}
			lastEOD = sess.counts["MAIL"]
			inTxn, txn = false, nil
		case "QUIT":
			sess.QuitSeen = true
			code := send("221 2.0.0 bye [" + step + "]")
			if code == -1 {
				return
			}
			if code == 221 {
				// wait for the client to close (bounded), so that EOF observation is meaningful
				_ = c.conn.SetReadDeadline(time.Now().Add(200 * time.Millisecond))
				if _, err := c.br.ReadByte(); err != nil {
					var ne net.Error
					if !(errors.As(err, &ne) && ne.Timeout()) {
						sess.SawEOF = true
					}
				}
				return
			}
		default:
			if line == "*" {
				sess.violate("auth-cancel-after-final-reply", "client sent the AUTH cancel line \"*\" although no 334 challenge was pending (the previous reply was final)")
			} else {
				sess.violate("unknown-command", "unknown or malformed command %q", clip(line))
			}
			c.reply("500 5.5.2 command unrecognized [" + step + "]")
			sess.Replies[step] = "500 5.5.2 command unrecognized [" + step + "]"
		}
		if c.wrErr != nil {
			sess.SawEOF = true
			return
		}
	}
}

// readData reads message content up to the end-of-data line. limit >= 0: after that many content
// bytes the connection is dropped (or, with stall, no longer read).
func (c *connState) readData(limit int, stall bool, s *Server) (payload []byte, terminated, aborted bool) {
	var buf bytes.Buffer
	received := 0
	for {
		if limit >= 0 && received >= limit {
			if stall {
				s.stallNoRead(c)
				return buf.Bytes(), false, true
			}
			c.sess.Dropped = true
			return buf.Bytes(), false, true
		}
		b, err := c.br.ReadBytes('\n')
		received += len(b)
		if err != nil {
			buf.Write(b)
			c.sess.Events = append(c.sess.Events, Event{Dir: "C", Line: fmt.Sprintf("<%d bytes of content, then EOF>", buf.Len())})
			return buf.Bytes(), false, false
		}
		if bytes.Equal(b, []byte(".\r\n")) {
			c.sess.Events = append(c.sess.Events, Event{Dir: "C", Line: fmt.Sprintf("<%d bytes of content> .", buf.Len())})
			return buf.Bytes(), true, false
		}
		if !bytes.HasSuffix(b, []byte("\r\n")) {
			c.sess.violate("data-bare-lf", "bare LF inside DATA content: %q", clip(string(b)))
		}
		if b[0] == '.' {
			b = b[1:]
		}
		buf.Write(b)
	}
}

// formatReply renders a (possibly multi-line, "\n"-separated) reply text with the step tag
// appended to the last line.
func formatReply(code int, text, step string) string {
	lines := strings.Split(text, "\n")
	for i := range lines {
		if i < len(lines)-1 {
			lines[i] = fmt.Sprintf("%d-%s", code, lines[i])
		} else {
			lines[i] = fmt.Sprintf("%d %s [%s]", code, lines[i], step)
		}
	}
	return strings.Join(lines, "\n")
}

func hasCap(caps []string, k string) bool {
	for _, c := range caps {
		if strings.EqualFold(c, k) {
			return true
		}
	}
	return false
}

func hasCapPrefix(caps []string, k string) bool {
	for _, c := range caps {
		f := strings.Fields(c)
		if len(f) > 0 && strings.EqualFold(f[0], k) {
			return true
		}
	}
	return false
}

func clip(s string) string {
	if len(s) > 120 {
		return s[:120] + "..."
	}
	return s
}

func checkParams(sess *Session, verb string, params []string, caps []string, esmtp bool) {
	for _, p := range params {
		k, v, hasV := strings.Cut(p, "=")
		ku := strings.ToUpper(k)
		switch {
		case verb == "MAIL" && ku == "BODY":
			if !hasCap(caps, "8BITMIME") {
				sess.violate("param-not-advertised", "MAIL parameter %s although 8BITMIME was not advertised in the latest EHLO reply", p)
			}
			if vu := strings.ToUpper(v); vu != "8BITMIME" && vu != "7BIT" {
				sess.violate("param-bad-value", "MAIL parameter %s", p)
			}
		case verb == "MAIL" && ku == "SMTPUTF8":
			if !hasCap(caps, "SMTPUTF8") {
				sess.violate("param-not-advertised", "MAIL parameter SMTPUTF8 although not advertised in the latest EHLO reply")
			}
			if hasV {
				sess.violate("param-bad-value", "MAIL parameter %s", p)
			}
		case verb == "MAIL" && ku == "RET":
			if !hasCap(caps, "DSN") {
				sess.violate("param-not-advertised", "MAIL parameter %s although DSN was not advertised in the latest EHLO reply", p)
			}
			if vu := strings.ToUpper(v); vu != "FULL" && vu != "HDRS" {
				sess.violate("param-bad-value", "MAIL parameter %s", p)
			}
		case verb == "RCPT" && ku == "NOTIFY":
			if !hasCap(caps, "DSN") {
				sess.violate("param-not-advertised", "RCPT parameter %s although DSN was not advertised in the latest EHLO reply", p)
			}
			items := strings.Split(strings.ToUpper(v), ",")
			never := false
			for _, it := range items {
				switch it {
				case "NEVER":
					never = true
				case "SUCCESS", "FAILURE", "DELAY":
				default:
					sess.violate("param-bad-value", "RCPT parameter %s", p)
				}
			}
			if never && len(items) > 1 {
				sess.violate("param-bad-value", "RCPT parameter %s combines NEVER with other values", p)
			}
		default:
			sess.violate("param-unknown", "%s parameter %q is not one the client can have been configured with", verb, p)
		}
	}
	if len(params) > 0 && !esmtp {
		sess.violate("param-without-esmtp", "%s parameters after HELO", verb)
	}
}
