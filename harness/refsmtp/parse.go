package refsmtp

import (
	"fmt"
	"strings"
	"unicode/utf8"
)

type command struct {
	verb     string
	rest     string // everything after the verb and one blank
	path     string // MAIL/RCPT: text between < and >
	params   []string
	problems []Violation
	utf8     bool
}

func (c *command) bad(key, format string, args ...interface{}) {
	c.problems = append(c.problems, Violation{key, fmt.Sprintf(format, args...)})
}

func isAtext(b byte) bool {
	switch {
	case b >= 'a' && b <= 'z', b >= 'A' && b <= 'Z', b >= '0' && b <= '9':
		return true
	}
	return strings.IndexByte("!#$%&'*+-/=?^_`{|}~", b) >= 0
}

// parseCommand parses one command line with the RFC 5321 section 4.1.2 grammar.
func parseCommand(line string) *command {
	c := &command{}
	upper := strings.ToUpper(line)
	switch {
	case strings.HasPrefix(upper, "MAIL FROM:"):
		c.verb = "MAIL"
		c.parsePathAndParams(line[len("MAIL FROM:"):], true)
		return c
	case strings.HasPrefix(upper, "RCPT TO:"):
		c.verb = "RCPT"
		c.parsePathAndParams(line[len("RCPT TO:"):], false)
		return c
	}
	verb := upper
	rest := ""
	hasSP := false
	if i := strings.IndexByte(line, ' '); i >= 0 {
		verb = upper[:i]
		rest = line[i+1:]
		hasSP = true
	}
	c.rest = rest
	switch verb {
	case "EHLO", "HELO":
		c.verb = verb
		if !hasSP || rest == "" {
			c.bad("helo-syntax", "%s without an argument", verb)
			return c
		}
		if strings.ContainsAny(rest, " \t") {
			c.bad("helo-syntax", "%s with more than one argument: %q", verb, rest)
			return c
		}
		if !validDomain(rest) && !(verb == "EHLO" && validAddressLiteral(rest)) {
			c.bad("helo-domain", "%s argument %q is neither a domain nor an address literal", verb, rest)
		}
	case "DATA", "RSET", "QUIT", "STARTTLS", "NOOP":
		c.verb = verb
		if hasSP {
			c.bad("trailing-garbage", "%s followed by %q", verb, rest)
		}
	case "VRFY":
		// RFC 5321 4.1.1.6: "VRFY" SP String CRLF
		c.verb = verb
		if !hasSP || rest == "" {
			c.bad("vrfy-syntax", "VRFY without an argument")
		}
	case "AUTH":
		c.verb = verb
		f := strings.Split(rest, " ")
		if !hasSP || len(f) == 0 || f[0] == "" {
			c.bad("auth-syntax", "AUTH without mechanism")
			return c
		}
		for i := 0; i < len(f[0]); i++ {
			b := f[0][i]
			if !(b >= 'A' && b <= 'Z' || b >= 'a' && b <= 'z' || b >= '0' && b <= '9' || b == '-' || b == '_') {
				c.bad("auth-syntax", "AUTH mechanism %q has illegal characters", f[0])
				break
			}
		}
		if len(f) > 2 {
			c.bad("auth-syntax", "AUTH with %d arguments: %q", len(f), clip(rest))
		}
		if len(f) == 2 && f[1] == "" {
			c.bad("auth-syntax", "AUTH with an empty initial response (must be '=')")
		}
	default:
		c.verb = "?"
	}
	return c
}

func (c *command) parsePathAndParams(s string, reverse bool) {
	which := "forward-path"
	if reverse {
		which = "reverse-path"
	}
	if s == "" || s[0] != '<' {
		c.bad("path-syntax", "%s does not start with '<' directly after the colon: %q", which, clip(s))
		// best effort
		if i := strings.IndexByte(s, '>'); i >= 0 {
			c.path = strings.TrimLeft(s[:i], " <")
		}
		return
	}
	i := 1
	if reverse && strings.HasPrefix(s, "<>") {
		c.path = ""
		i = 2
	} else {
		end, ok := c.parseMailbox(s, 1, which)
		if !ok {
			// best effort path for diagnostics: up to the first '>'
			if j := strings.IndexByte(s, '>'); j >= 0 {
				c.path = s[1:j]
				i = j + 1
			} else {
				c.path = s[1:]
				return
			}
		} else {
			c.path = s[1:end]
			if end >= len(s) || s[end] != '>' {
				c.bad("path-syntax", "%s not closed by '>': %q", which, clip(s))
				return
			}
			i = end + 1
		}
	}
	rest := s[i:]
	if rest == "" {
		return
	}
	if rest[0] != ' ' {
		c.bad("path-syntax", "text directly after %s: %q", which, clip(rest))
		return
	}
	for _, p := range strings.Split(rest[1:], " ") {
		if p == "" {
			c.bad("param-syntax", "empty esmtp parameter (double blank) in %q", clip(rest))
			continue
		}
		k, v, hasV := strings.Cut(p, "=")
		okk := k != ""
		for j := 0; j < len(k); j++ {
			b := k[j]
			if !(b >= 'A' && b <= 'Z' || b >= 'a' && b <= 'z' || b >= '0' && b <= '9' || (b == '-' && j > 0)) {
				okk = false
			}
		}
		if !okk {
			c.bad("param-syntax", "esmtp keyword %q is malformed", k)
		}
		if hasV {
			if v == "" {
				c.bad("param-syntax", "esmtp parameter %q has an empty value", p)
			}
			for j := 0; j < len(v); j++ {
				if v[j] < 33 || v[j] > 126 || v[j] == '=' {
					c.bad("param-syntax", "esmtp value of %q has an illegal character", p)
					break
				}
			}
		}
		c.params = append(c.params, p)
	}
}

// parseMailbox parses Local-part "@" (Domain / address-literal) starting at s[i]; returns the index
// after the mailbox.
func (c *command) parseMailbox(s string, i int, which string) (int, bool) {
	start := i
	if i < len(s) && s[i] == '"' {
		i++
		closed := false
		for i < len(s) {
			b := s[i]
			if b == '\\' {
				if i+1 >= len(s) || s[i+1] < 32 || s[i+1] > 126 {
					c.bad("path-syntax", "%s: bad quoted-pair in local part: %q", which, clip(s))
					return 0, false
				}
				i += 2
				continue
			}
			if b == '"' {
				closed = true
				i++
				break
			}
			if b < 32 || b == 127 {
				c.bad("path-syntax", "%s: control character in quoted local part: %q", which, clip(s))
				return 0, false
			}
			if b >= 0x80 {
				c.utf8 = true
			}
			i++
		}
		if !closed {
			c.bad("path-syntax", "%s: unterminated quoted local part: %q", which, clip(s))
			return 0, false
		}
	} else {
		// Dot-string
		atomLen := 0
		for i < len(s) {
			b := s[i]
			if b == '.' {
				if atomLen == 0 {
					c.bad("path-syntax", "%s: empty atom in local part (leading or double dot): %q", which, clip(s))
					return 0, false
				}
				atomLen = 0
				i++
				continue
			}
			if isAtext(b) {
				atomLen++
				i++
				continue
			}
			if b >= 0x80 {
				r, n := utf8.DecodeRuneInString(s[i:])
				if r == utf8.RuneError && n <= 1 {
					c.bad("path-syntax", "%s: invalid UTF-8 in local part: %q", which, clip(s))
					return 0, false
				}
				c.utf8 = true
				atomLen++
				i += n
				continue
			}
			break
		}
		if i == start || atomLen == 0 {
			c.bad("path-syntax", "%s: local part %q is not a dot-string (needs quoting?) in %q", which, s[start:i], clip(s))
			return 0, false
		}
	}
	if i >= len(s) || s[i] != '@' {
		c.bad("path-syntax", "%s: expected '@' after local part %q, found %q", which, s[start:i], clip(s[i:]))
		return 0, false
	}
	i++
	ds := i
	if i < len(s) && s[i] == '[' {
		j := strings.IndexByte(s[i:], ']')
		if j < 0 {
			c.bad("path-syntax", "%s: unterminated address literal", which)
			return 0, false
		}
		i += j + 1
		if !validAddressLiteral(s[ds:i]) {
			c.bad("path-syntax", "%s: bad address literal %q", which, s[ds:i])
			return 0, false
		}
		return i, true
	}
	for i < len(s) && s[i] != '>' && s[i] != ' ' {
		i++
	}
	if !validDomain(s[ds:i]) {
		c.bad("path-syntax", "%s: bad domain %q", which, s[ds:i])
		return 0, false
	}
	return i, true
}

func validDomain(d string) bool {
	if d == "" || len(d) > 255 {
		return false
	}
	for _, label := range strings.Split(d, ".") {
		if label == "" {
			return false
		}
		for i := 0; i < len(label); i++ {
			b := label[i]
			switch {
			case b >= 'a' && b <= 'z', b >= 'A' && b <= 'Z', b >= '0' && b <= '9':
			case b == '-' && i > 0 && i < len(label)-1:
			case b >= 0x80: // U-label; only meaningful with SMTPUTF8
			default:
				return false
			}
		}
	}
	return true
}

func validAddressLiteral(s string) bool {
	if len(s) < 3 || s[0] != '[' || s[len(s)-1] != ']' {
		return false
	}
	inner := s[1 : len(s)-1]
	for i := 0; i < len(inner); i++ {
		b := inner[i]
		if b < 33 || b > 126 || b == '[' || b == ']' || b == '\\' {
			return false
		}
	}
	return true
}

// SplitPath splits a path (text between < and >) into the un-quoted local part and the domain.
func SplitPath(path string) (local, domain string, ok bool) {
	if path == "" {
		return "", "", true
	}
	if path[0] == '"' {
		var sb strings.Builder
		i := 1
		for i < len(path) {
			if path[i] == '\\' && i+1 < len(path) {
				sb.WriteByte(path[i+1])
				i += 2
				continue
			}
			if path[i] == '"' {
				break
			}
			sb.WriteByte(path[i])
			i++
		}
		if i >= len(path) || i+1 >= len(path) || path[i+1] != '@' {
			return "", "", false
		}
		return sb.String(), path[i+2:], true
	}
	at := strings.LastIndexByte(path, '@')
	if at < 0 {
		return "", "", false
	}
	return path[:at], path[at+1:], true
}
