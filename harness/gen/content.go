// Package gen holds the rapid generators shared by the property checks. Every random choice is
// drawn from rapid so that shrinking and replay work; generated values are plain data.
package gen

import (
	"bytes"
	"sort"
	"strings"

	"pgregory.net/rapid"
)

var wordPool = []string{
	"hello", "world", "a", "=", "==", "=3D", "=20", "=\r\n", "café", "日本語", "\U0001F600", ".", "..", "...",
	"From ", "--", "--x", "----boundary", "--=_NextPart", "x y", "\t", " ", "  ", "=?UTF-8?q?x?=", "<html>", "</p>",
	"0123456789", "The quick brown fox jumps over the lazy dog", ";", ":", "\"", "\\", "_", "?", "?=", "=?",
	"%s", "%d%%", "{{.}}", "<script>", "&amp;", "\x00", "\ufeff", "\ufeffBOM first",
}

// lineGen draws one line of text (no line terminator).
func lineGen(t *rapid.T) string {
	kind := rapid.IntRange(0, 11).Draw(t, "linekind")
	switch kind {
	case 0:
		return ""
	case 1: // leading dot forms
		return rapid.SampledFrom([]string{".", "..", ". x", ".x", "..."}).Draw(t, "dot")
	case 2: // trailing whitespace
		return rapid.SampledFrom(wordPool).Draw(t, "w") + rapid.SampledFrom([]string{" ", "\t", "  ", " \t ", "   "}).Draw(t, "trail")
	case 3: // boundary-like
		return rapid.SampledFrom([]string{"--", "--abc", "--abc--", "----", "--=_x", "--0123456789abcdef0123456789abcdef0123456789abcdef0123456789ab"}).Draw(t, "bl")
	case 4: // length around wrapping points
		n := rapid.SampledFrom([]int{72, 73, 74, 75, 76, 77, 78, 79, 80, 150, 151, 152, 153, 154}).Draw(t, "len")
		ch := rapid.SampledFrom([]string{"a", "=", "é", " ", "a ", "日"}).Draw(t, "ch")
		s := strings.Repeat(ch, n/len(ch)+1)
		return s[:n]
	case 5: // very long
		n := rapid.SampledFrom([]int{997, 998, 999, 1000, 1001, 1200}).Draw(t, "len")
		return strings.Repeat("x", n)
	case 6: // UTF-8 straddling column 76
		n := rapid.IntRange(70, 78).Draw(t, "pre")
		return strings.Repeat("a", n) + rapid.SampledFrom([]string{"é", "日", "\U0001F600"}).Draw(t, "mb") + "tail"
	case 7: // '=' runs
		return strings.Repeat("=", rapid.IntRange(1, 80).Draw(t, "eqs")) + rapid.SampledFrom([]string{"", "3D", "20", "0A", "zz"}).Draw(t, "after")
	case 8:
		return "From " + rapid.SampledFrom(wordPool).Draw(t, "w")
	default:
		n := rapid.IntRange(1, 12).Draw(t, "nwords")
		var sb strings.Builder
		for i := 0; i < n; i++ {
			if i > 0 {
				sb.WriteByte(' ')
			}
			sb.WriteString(rapid.SampledFrom(wordPool).Draw(t, "w"))
		}
		return sb.String()
	}
}

// TextContent draws text whose line breaks are CRLF, LF or mixed; with allowCR also lone CRs.
// The last line may or may not be terminated.
func TextContent(t *rapid.T, label string, allowLF, allowCR bool) []byte {
	if rapid.IntRange(0, 19).Draw(t, label+"-empty") == 0 {
		return []byte{}
	}
	n := rapid.IntRange(1, 8).Draw(t, label+"-nlines")
	mode := rapid.IntRange(0, 3).Draw(t, label+"-brk") // 0 CRLF, 1 LF, 2 mixed, 3 mixed incl. CR
	var buf bytes.Buffer
	if rapid.IntRange(0, 14).Draw(t, label+"-bom") == 0 {
		buf.WriteString("\ufeff") // text saved by a Windows editor: the byte order mark is content
	}
	for i := 0; i < n; i++ {
		buf.WriteString(lineGen(t))
		last := i == n-1
		if last && rapid.Bool().Draw(t, label+"-noterm") {
			break
		}
		brk := "\r\n"
		switch {
		case mode == 1 && allowLF:
			brk = "\n"
		case mode >= 2 && allowLF:
			opts := []string{"\r\n", "\n"}
			if mode == 3 && allowCR {
				opts = append(opts, "\r", "\r\r\n", "\n\r")
			}
			brk = rapid.SampledFrom(opts).Draw(t, label+"-b")
		}
		buf.WriteString(brk)
	}
	return buf.Bytes()
}

// BinaryContent draws arbitrary bytes with sizes concentrated around the base64 wrapping points.
func BinaryContent(t *rapid.T, label string) []byte {
	kind := rapid.IntRange(0, 9).Draw(t, label+"-kind")
	switch kind {
	case 0:
		return []byte{}
	case 1, 2: // sizes around 57*n and 76*n
		base := rapid.SampledFrom([]int{57, 76, 114, 171, 3, 1, 2}).Draw(t, label+"-base")
		mul := rapid.IntRange(1, 4).Draw(t, label+"-mul")
		delta := rapid.IntRange(-2, 2).Draw(t, label+"-delta")
		n := base*mul + delta
		if n < 0 {
			n = 0
		}
		b := make([]byte, n)
		seed := rapid.IntRange(0, 255).Draw(t, label+"-seed")
		for i := range b {
			b[i] = byte(seed + i*7)
		}
		return b
	case 3: // text used as binary (bare CR / LF kept)
		return TextContent(t, label+"-txt", true, true)
	case 4: // hostile constants
		return []byte(rapid.SampledFrom([]string{"\r", "\n", "\r\n", "\n\r", ".\r\n", "\r\n.\r\n", "\x00", "\xff\xfe", "=\r\n", "--\r\n", "\r\n\r\n", " ", "\t\r\n"}).Draw(t, label+"-const"))
	default:
		return rapid.SliceOfN(rapid.Byte(), 0, 400).Draw(t, label+"-bytes")
	}
}

// ContentClasses labels a content byte string; used for fingerprints and histograms.
func ContentClasses(b []byte) []string {
	set := map[string]bool{}
	if len(b) == 0 {
		set["empty"] = true
	}
	if len(b) >= 58 {
		set["ge58"] = true
	}
	lineLen := 0
	for i := 0; i < len(b); i++ {
		c := b[i]
		switch {
		case c == '=':
			set["eq"] = true
		case c >= 0x80:
			set["hi"] = true
		case c == 0:
			set["nul"] = true
		case c == '\r':
			if i+1 >= len(b) || b[i+1] != '\n' {
				set["lonecr"] = true
			}
		case c == '\n':
			if i == 0 || b[i-1] != '\r' {
				set["barelf"] = true
			}
			if i > 0 && (b[i-1] == ' ' || b[i-1] == '\t') || i > 1 && b[i-1] == '\r' && (b[i-2] == ' ' || b[i-2] == '\t') {
				set["trailws"] = true
			}
		case c < 32 && c != '\t':
			set["ctl"] = true
		}
		if c == '\n' || c == '\r' {
			lineLen = 0
		} else {
			if lineLen == 0 && c == '.' {
				set["leaddot"] = true
			}
			if lineLen == 1 && c == '-' && b[i-1] == '-' {
				set["dashdash"] = true
			}
			lineLen++
			if lineLen > 76 {
				set["long76"] = true
			}
			if lineLen > 998 {
				set["long998"] = true
			}
		}
	}
	if n := len(b); n > 0 && (b[n-1] == ' ' || b[n-1] == '\t') {
		set["trailws"] = true
	}
	if n := len(b); n > 0 && b[n-1] != '\n' {
		set["noeol"] = true
	}
	var out []string
	for k := range set {
		out = append(out, k)
	}
	sort.Strings(out)
	return out
}

// NeedsTransform reports whether the content has at least one byte the given CTE must transform.
func NeedsTransform(b []byte, cte string) bool {
	cl := ContentClasses(b)
	has := func(s string) bool {
		for _, c := range cl {
			if c == s {
				return true
			}
		}
		return false
	}
	switch cte {
	case "quoted-printable":
		return has("eq") || has("hi") || has("trailws") || has("long76") || has("barelf") || has("ctl") || has("nul")
	case "base64":
		return has("ge58")
	}
	return false
}
