package gen

import (
	"bytes"
	"embed"
	"errors"
	"fmt"
	ht "html/template"
	"io"
	iofs "io/fs"
	"mime"
	"os"
	"path/filepath"
	"strings"
	"testing/fstest"
	tt "text/template"
	"time"

	mail "github.com/wneessen/go-mail"
	"pgregory.net/rapid"
)

//go:embed embedded/payload.bin
var embeddedFS embed.FS

// EmbeddedPayload is the content of the one file in the harness' embed.FS (source "embedfs").
func EmbeddedPayload() []byte {
	b, err := embeddedFS.ReadFile("embedded/payload.bin")
	if err != nil {
		panic("HARNESS-ERROR: " + err.Error())
	}
	return b
}

// ErrInjected is what fault-injecting producers return.
var ErrInjected = errors.New("verif: injected producer failure")

// Producer describes how content is handed to a sink and where it fails.
type Producer struct {
	// Chunks are the sizes of successive Write calls (cycled). Empty = one single Write.
	Chunks []int `json:"chunks,omitempty"`
	// FailAfter >= 0: the producer returns ErrInjected after having written that many bytes.
	// -1 (or absent via Fail=false) = never fails.
	Fail      bool `json:"fail,omitempty"`
	FailAfter int  `json:"fail_after,omitempty"`
	// FailOnCall: 0 = fail on every invocation; n > 0 = fail only on the n-th invocation.
	FailOnCall int `json:"fail_on_call,omitempty"`
	// WhenArmed: the fault is active only while Built.Armed is true (the harness arms it around
	// exactly one render).
	WhenArmed bool `json:"when_armed,omitempty"`
	// AtSeek (read-seeker sources only): all bytes are delivered, the fault is the rewind that fails
	// (a pipe, a stale handle). FailAfter is ignored.
	AtSeek bool `json:"at_seek,omitempty"`
	// Err selects the error value: "" = ErrInjected, eof = io.EOF, wrapped-eof = an error wrapping io.EOF
	// (what io.CopyN over a short source reports), unexpected-eof, closed-pipe.
	Err string `json:"err,omitempty"`
}

func (p Producer) err() error {
	switch p.Err {
	case "eof":
		return io.EOF
	case "wrapped-eof":
		return fmt.Errorf("verif: short source: %w", io.EOF)
	case "unexpected-eof":
		return io.ErrUnexpectedEOF
	case "closed-pipe":
		return io.ErrClosedPipe
	}
	return ErrInjected
}

// MiddlewareBody is what the "body" middleware turns the first body part into.
const MiddlewareBody = "this body was written by a middleware\r\nsecond line = footer\r\n"

type rewritingMiddleware struct{ what string }

func (r rewritingMiddleware) Handle(m *mail.Msg) *mail.Msg {
	switch r.what {
	case "body":
		if parts := m.GetParts(); len(parts) > 0 {
			parts[0].SetContent(MiddlewareBody)
		}
	case "subject":
		m.Subject("subject set by a middleware")
	}
	return m
}

func (r rewritingMiddleware) Type() mail.MiddlewareType {
	return mail.MiddlewareType("verif-" + r.what)
}

// Excluded reports whether a generator element is switched off through VERIF_GEN_EXCLUDE (a comma-
// separated list). Only tools/seedeval.py sets it, when it judges a seeded change on a tree from which
// a later fix was reverted: the element that exposes the repaired defect must not raise the alarm.
// RemoveFiles makes every file-system backed source of the message vanish: the on-disk files are
// removed and the entries of the in-memory file systems deleted.
func (b *Built) RemoveFiles() {
	// two ways of becoming unreadable, chosen by the parity of the content length (so that a replayed case
	// does the same): the file is gone (Open fails), or a directory has taken its place (Open succeeds,
	// the first Read fails)
	for _, p := range b.FilePaths {
		st, err := os.Stat(p)
		_ = os.Remove(p)
		if err == nil && st.Size()%2 == 1 {
			_ = os.Mkdir(p, 0o755)
		}
	}
	for _, fsys := range b.FSMaps {
		f := fsys["payload.json"]
		delete(fsys, "payload.json")
		if f != nil && len(f.Data)%2 == 1 {
			fsys["payload.json"] = &fstest.MapFile{Mode: iofs.ModeDir | 0o755}
		}
	}
}

// faultyFS is a caller's fs.FS with one file, "payload.json", whose Read behaves like faultyRS: every Open
// starts a new pass; in a failing pass Read reports the injected error when the position reaches FailAfter.
type faultyFS struct {
	data  []byte
	p     Producer
	calls *int
	armed *bool
}

type faultyFile struct {
	rs *faultyRS
	n  int
}

func (f faultyFS) Open(name string) (iofs.File, error) {
	if name != "payload.json" {
		return nil, &iofs.PathError{Op: "open", Path: name, Err: iofs.ErrNotExist}
	}
	return &faultyFile{rs: &faultyRS{data: f.data, p: f.p, calls: f.calls, armed: f.armed}, n: len(f.data)}, nil
}
func (f *faultyFile) Read(b []byte) (int, error) { return f.rs.Read(b) }
func (f *faultyFile) Close() error               { return nil }
func (f *faultyFile) Stat() (iofs.FileInfo, error) {
	return faultyInfo{size: int64(f.n)}, nil
}

type faultyInfo struct{ size int64 }

func (i faultyInfo) Name() string        { return "payload.json" }
func (i faultyInfo) Size() int64         { return i.size }
func (i faultyInfo) Mode() iofs.FileMode { return 0o644 }
func (i faultyInfo) ModTime() time.Time  { return time.Unix(0, 0) }
func (i faultyInfo) IsDir() bool         { return false }
func (i faultyInfo) Sys() interface{}    { return nil }

func Excluded(element string) bool {
	for _, e := range strings.Split(os.Getenv("VERIF_GEN_EXCLUDE"), ",") {
		if e == element {
			return true
		}
	}
	return false
}

// FaultFlavour varies a producer fault that a generator has just placed on leaf idx (parts first,
// then embeds, then attachments): the error value, and for files one time in three the fault moves
// into the caller's io.ReadSeeker behind the library's own AttachReadSeeker/EmbedReadSeeker producer
// (there also as a failing rewind).
func FaultFlavour(t *rapid.T, s *MsgSpec, idx int, allowAtSeek bool) {
	var p *Producer
	var f *FileSpec
	switch {
	case idx < len(s.Parts):
		p = &s.Parts[idx].Prod
	case idx < len(s.Parts)+len(s.Embeds):
		f = &s.Embeds[idx-len(s.Parts)]
		p = &f.Prod
	default:
		f = &s.Attachments[idx-len(s.Parts)-len(s.Embeds)]
		p = &f.Prod
	}
	p.Err = rapid.SampledFrom([]string{"", "", "", "eof", "wrapped-eof", "unexpected-eof", "closed-pipe"}).Draw(t, "faulterr")
	if f != nil && !Excluded("iofs-faulty") && rapid.IntRange(0, 4).Draw(t, "faultinfs") == 0 {
		// ... or into a file of the caller's fs.FS behind the library's AttachFromIOFS/EmbedFromIOFS producer
		f.Source = "iofs-faulty"
		if p.Err == "eof" {
			p.Err = ""
		}
		return
	}
	if f != nil && rapid.IntRange(0, 2).Draw(t, "faultinreadseeker") == 0 {
		f.Source = "readseeker"
		// a source whose rewind failed stays broken, so this flavour is only for checks that do not
		// expect later renders of the same message to succeed
		p.AtSeek = allowAtSeek && rapid.IntRange(0, 3).Draw(t, "faultatseek") == 0
	}
	if f != nil && f.Source == "readseeker" && p.Err == "eof" {
		// a Read that reports io.EOF is the end of the data, not a failure
		p.Err = ""
	}
}

// PartSpec describes a body part or alternative.
type PartSpec struct {
	CType   string   `json:"ctype"`             // text/plain or text/html
	Content []byte   `json:"content"`           // what the caller supplies
	Enc     string   `json:"enc,omitempty"`     // "" = message encoding
	Charset string   `json:"charset,omitempty"` // "" = message charset
	Desc    string   `json:"desc,omitempty"`
	Via     string   `json:"via"` // string | writer | texttpl | htmltpl
	Prod    Producer `json:"prod,omitempty"`
	// DescBySetter: the description is not given as an option when the part is created but set
	// afterwards through (*Part).SetDescription on the part the message hands out (GetParts).
	DescBySetter bool `json:"desc_by_setter,omitempty"`
}

// FileSpec describes an embed or attachment.
type FileSpec struct {
	Name    string   `json:"name"`
	Content []byte   `json:"content"`
	Enc     string   `json:"enc,omitempty"` // "", base64, 8bit, 7bit, quoted-printable (documented no-op)
	CType   string   `json:"ctype,omitempty"`
	Desc    string   `json:"desc,omitempty"`
	CID     string   `json:"cid,omitempty"`
	Source  string   `json:"source"` // reader | readseeker | file | iofs | texttpl | htmltpl | writer
	Prod    Producer `json:"prod,omitempty"`
}

// HeaderSpec is a generic header.
type HeaderSpec struct {
	Name      string   `json:"name"`
	Values    []string `json:"values"`
	Preformat bool     `json:"preformat,omitempty"`
	// OldName: set through the deprecated aliases SetHeader / SetHeaderPreformatted.
	OldName bool `json:"old_name,omitempty"`
}

// MsgSpec is a complete "message program".
type MsgSpec struct {
	Encoding    string       `json:"encoding"` // quoted-printable | base64 | 8bit | 7bit
	Charset     string       `json:"charset,omitempty"`
	Parts       []PartSpec   `json:"parts"`
	Embeds      []FileSpec   `json:"embeds,omitempty"`
	Attachments []FileSpec   `json:"attachments,omitempty"`
	Subject     *string      `json:"subject,omitempty"`
	From        string       `json:"from,omitempty"`
	To          []string     `json:"to,omitempty"`
	Cc          []string     `json:"cc,omitempty"`
	Bcc         []string     `json:"bcc,omitempty"`
	Headers     []HeaderSpec `json:"headers,omitempty"`
	Boundary    string       `json:"boundary,omitempty"`
	// Middleware: "body" = the message carries a middleware that rewrites the content of the first body
	// part on every render (idempotent); "subject" = one that rewrites the subject only.
	Middleware string `json:"middleware,omitempty"`
	NoUA       bool   `json:"no_ua,omitempty"`
	FixedDate  bool   `json:"fixed_date,omitempty"`
}

// Leaf is what an independent reader is expected to find for one part/embed/attachment.
type Leaf struct {
	Kind        string // part | embed | attach
	MediaType   string // "" = any syntactically valid type
	Charset     string // parts only
	CTE         string
	Disposition string // "", inline, attachment
	Filename    string // after sanitising
	Desc        string
	CID         string // expected Content-ID value (with <>), "" = none expected
	Content     []byte
}

// Sanitize is the documented replacement of control and path characters in file names.
func Sanitize(s string) string {
	b := []byte(s)
	for i, c := range b {
		if c < 32 || c == 127 || strings.IndexByte("\"/:<>?\\|", c) >= 0 {
			b[i] = '_'
		}
	}
	return string(b)
}

func encConst(s string) mail.Encoding {
	switch s {
	case "quoted-printable":
		return mail.EncodingQP
	case "base64":
		return mail.EncodingB64
	case "8bit":
		return mail.NoEncoding
	case "7bit":
		return mail.EncodingUSASCII
	}
	return mail.Encoding(s)
}

// Built is the result of executing a message program.
type Built struct {
	Msg    *mail.Msg
	Leaves []Leaf
	// Calls counts producer invocations per leaf index (for fault arming by invocation).
	Calls []*int
	// Armed switches producers with WhenArmed on and off.
	Armed *bool
	// FilePaths are the on-disk files created for "file" sources.
	FilePaths []string
	// FSMaps are the in-memory file systems behind "iofs" sources (entry "payload.json"): a check that
	// lets files vanish before a render deletes the entry.
	FSMaps []fstest.MapFS
	// after holds what the caller does with its own readers/buffers once everything is attached.
	after []func()
}

// CallerReuse lets the caller come back to the readers and buffers it handed to the Attach*/Embed*
// calls (drain them, rewind them, overwrite its scratch buffers) - as it does once right after building,
// and as it may again at any later time, e.g. between two renders.
func (b *Built) CallerReuse() {
	for _, fn := range b.after {
		fn()
	}
}

// Env holds per-process resources for builders.
type Env struct {
	Dir string
	seq int
}

// NewEnv creates a scratch directory for on-disk file sources.
func NewEnv() (*Env, error) {
	d, err := os.MkdirTemp("", "verif-gomail-")
	if err != nil {
		return nil, err
	}
	return &Env{Dir: d}, nil
}

// Close removes the scratch directory.
func (e *Env) Close() { _ = os.RemoveAll(e.Dir) }

// producerFunc builds the write function for content with the given producer behaviour.
func producerFunc(content []byte, p Producer, calls *int, armed *bool) func(io.Writer) (int64, error) {
	return func(w io.Writer) (int64, error) {
		*calls++
		failing := p.Fail && (p.FailOnCall == 0 || p.FailOnCall == *calls)
		if p.WhenArmed {
			failing = p.Fail && *armed
		}
		limit := len(content)
		if failing && p.FailAfter < limit {
			limit = p.FailAfter
		}
		if limit < 0 {
			limit = 0
		}
		var written int64
		pos := 0
		ci := 0
		for pos < limit {
			n := limit - pos
			if len(p.Chunks) > 0 {
				c := p.Chunks[ci%len(p.Chunks)]
				ci++
				if c < 1 {
					c = 1
				}
				if c < n {
					n = c
				}
			}
			k, err := w.Write(content[pos : pos+n])
			written += int64(k)
			if err != nil {
				return written, err
			}
			pos += n
		}
		if failing {
			return written, p.err()
		}
		return written, nil
	}
}

// faultyRS is the caller's io.ReadSeeker behind AttachReadSeeker/EmbedReadSeeker: the library's own
// producer closure reads it on every render. A pass ("invocation") starts with the first Read after
// creation or after a rewind. In a failing pass Read reports ErrInjected ONCE when the position
// reaches FailAfter (a transient fault) and works again afterwards; Chunks bound the Read sizes.
type faultyRS struct {
	data    []byte
	pos     int
	p       Producer
	calls   *int
	armed   *bool
	inPass  bool
	failing bool
	fired   bool
	broken  bool // a rewind has failed: this source cannot seek any more
	ci      int
}

func (r *faultyRS) Read(b []byte) (int, error) {
	if !r.inPass {
		r.inPass = true
		r.fired = false
		*r.calls++
		r.failing = r.p.Fail && (r.p.FailOnCall == 0 || r.p.FailOnCall == *r.calls)
		if r.p.WhenArmed {
			r.failing = r.p.Fail && *r.armed
		}
	}
	limit := len(r.data)
	if r.failing && !r.fired && !r.p.AtSeek {
		if r.pos >= r.p.FailAfter {
			r.fired = true
			return 0, r.p.err()
		}
		if r.p.FailAfter < limit {
			limit = r.p.FailAfter
		}
	}
	if r.pos >= len(r.data) {
		return 0, io.EOF
	}
	n := limit - r.pos
	if n > len(b) {
		n = len(b)
	}
	if len(r.p.Chunks) > 0 {
		c := r.p.Chunks[r.ci%len(r.p.Chunks)]
		r.ci++
		if c < 1 {
			c = 1
		}
		if c < n {
			n = c
		}
	}
	copy(b, r.data[r.pos:r.pos+n])
	r.pos += n
	return n, nil
}

func (r *faultyRS) Seek(offset int64, whence int) (int64, error) {
	if r.broken || (r.failing && r.p.AtSeek) {
		r.broken = true
		r.inPass = false
		return int64(r.pos), r.p.err()
	}
	var np int64
	switch whence {
	case io.SeekStart:
		np = offset
	case io.SeekCurrent:
		np = int64(r.pos) + offset
	case io.SeekEnd:
		np = int64(len(r.data)) + offset
	}
	if np < 0 {
		return int64(r.pos), errors.New("verif: negative position")
	}
	r.pos = int(np)
	if r.pos > len(r.data) {
		r.pos = len(r.data)
	}
	if np == 0 {
		r.inPass = false
	}
	return np, nil
}

func plainProducer(p Producer) bool { return !p.Fail && len(p.Chunks) == 0 }

var (
	textTpl = tt.Must(tt.New("t").Parse("{{.}}"))
	htmlTpl = ht.Must(ht.New("h").Parse("{{.}}"))
)

// Build executes the program against a fresh Msg and returns the message plus the model.
func Build(spec *MsgSpec, env *Env) (*Built, error) {
	var opts []mail.MsgOption
	if spec.Encoding != "" {
		opts = append(opts, mail.WithEncoding(encConst(spec.Encoding)))
	}
	if spec.Charset != "" {
		opts = append(opts, mail.WithCharset(mail.Charset(spec.Charset)))
	}
	if spec.Middleware != "" {
		opts = append(opts, mail.WithMiddleware(rewritingMiddleware{spec.Middleware}))
	}
	if spec.Boundary != "" {
		opts = append(opts, mail.WithBoundary(spec.Boundary))
	}
	if spec.NoUA {
		opts = append(opts, mail.WithNoDefaultUserAgent())
	}
	m := mail.NewMsg(opts...)
	b := &Built{Msg: m, Armed: new(bool)}
	msgEnc := spec.Encoding
	if msgEnc == "" {
		msgEnc = "quoted-printable"
	}
	msgCharset := spec.Charset
	if msgCharset == "" {
		msgCharset = "UTF-8"
	}

	if spec.From != "" {
		if err := m.From(spec.From); err != nil {
			return nil, fmt.Errorf("From: %w", err)
		}
	}
	if len(spec.To) > 0 {
		if err := m.To(spec.To...); err != nil {
			return nil, fmt.Errorf("To: %w", err)
		}
	}
	if len(spec.Cc) > 0 {
		if err := m.Cc(spec.Cc...); err != nil {
			return nil, fmt.Errorf("Cc: %w", err)
		}
	}
	if len(spec.Bcc) > 0 {
		if err := m.Bcc(spec.Bcc...); err != nil {
			return nil, fmt.Errorf("Bcc: %w", err)
		}
	}
	if spec.Subject != nil {
		m.Subject(*spec.Subject)
	}
	if spec.FixedDate {
		m.SetGenHeader(mail.HeaderDate, "Mon, 02 Jan 2006 15:04:05 +0000")
		m.SetMessageIDWithValue("fixed.message.id@verif.example")
	}
	for _, h := range spec.Headers {
		if h.Preformat {
			v := ""
			if len(h.Values) > 0 {
				v = h.Values[0]
			}
			if h.OldName {
				m.SetHeaderPreformatted(mail.Header(h.Name), v)
			} else {
				m.SetGenHeaderPreformatted(mail.Header(h.Name), v)
			}
		} else if h.OldName {
			m.SetHeader(mail.Header(h.Name), append([]string{}, h.Values...)...)
		} else {
			m.SetGenHeader(mail.Header(h.Name), append([]string{}, h.Values...)...)
		}
	}

	for i, p := range spec.Parts {
		var popts []mail.PartOption
		cte := msgEnc
		if p.Enc != "" {
			popts = append(popts, mail.WithPartEncoding(encConst(p.Enc)))
			cte = p.Enc
		}
		cs := msgCharset
		if p.Charset != "" {
			popts = append(popts, mail.WithPartCharset(mail.Charset(p.Charset)))
			cs = p.Charset
		}
		if p.Desc != "" && !p.DescBySetter {
			popts = append(popts, mail.WithPartContentDescription(p.Desc))
		}
		calls := new(int)
		b.Calls = append(b.Calls, calls)
		ct := mail.ContentType(p.CType)
		via := p.Via
		if !plainProducer(p.Prod) {
			via = "writer"
		}
		var err error
		switch via {
		case "writer":
			wf := producerFunc(p.Content, p.Prod, calls, b.Armed)
			if i == 0 {
				m.SetBodyWriter(ct, wf, popts...)
			} else {
				m.AddAlternativeWriter(ct, wf, popts...)
			}
		case "texttpl":
			// the template setters fix the content type themselves
			if p.CType != "text/plain" {
				return nil, fmt.Errorf("texttpl needs text/plain")
			}
			if i == 0 {
				err = m.SetBodyTextTemplate(textTpl, string(p.Content), popts...)
			} else {
				err = m.AddAlternativeTextTemplate(textTpl, string(p.Content), popts...)
			}
		case "htmltpl":
			if p.CType != "text/html" {
				return nil, fmt.Errorf("htmltpl needs text/html")
			}
			if i == 0 {
				err = m.SetBodyHTMLTemplate(htmlTpl, ht.HTML(p.Content), popts...)
			} else {
				err = m.AddAlternativeHTMLTemplate(htmlTpl, ht.HTML(p.Content), popts...)
			}
		default:
			if i == 0 {
				m.SetBodyString(ct, string(p.Content), popts...)
			} else {
				m.AddAlternativeString(ct, string(p.Content), popts...)
			}
		}
		if err != nil {
			return nil, fmt.Errorf("part %d: %w", i, err)
		}
		if p.Desc != "" && p.DescBySetter {
			if parts := m.GetParts(); len(parts) == i+1 {
				parts[i].SetDescription(p.Desc)
			} else {
				return nil, fmt.Errorf("part %d: GetParts returned %d parts", i, len(parts))
			}
		}
		b.Leaves = append(b.Leaves, Leaf{Kind: "part", MediaType: p.CType, Charset: cs, CTE: cte, Desc: p.Desc, Content: p.Content})
	}

	addFile := func(f FileSpec, embed bool) error {
		var fopts []mail.FileOption
		cte := "base64"
		if f.Enc != "" {
			fopts = append(fopts, mail.WithFileEncoding(encConst(f.Enc)))
			if f.Enc != "quoted-printable" {
				cte = f.Enc
			}
		}
		if f.CType != "" {
			fopts = append(fopts, mail.WithFileContentType(mail.ContentType(f.CType)))
		}
		if f.Desc != "" {
			fopts = append(fopts, mail.WithFileDescription(f.Desc))
		}
		if f.CID != "" {
			fopts = append(fopts, mail.WithFileContentID(f.CID))
		}
		calls := new(int)
		b.Calls = append(b.Calls, calls)
		src := f.Source
		if !plainProducer(f.Prod) && src != "readseeker" && src != "iofs-faulty" {
			src = "writer"
		}
		var err error
		switch src {
		case "writer":
			wf := producerFunc(f.Content, f.Prod, calls, b.Armed)
			fopts = append(fopts, func(fl *mail.File) { fl.Writer = wf })
			if embed {
				err = m.EmbedReader(f.Name, bytes.NewReader(nil), fopts...)
			} else {
				err = m.AttachReader(f.Name, bytes.NewReader(nil), fopts...)
			}
		case "readseeker":
			var rs io.ReadSeeker = bytes.NewReader(f.Content)
			if !plainProducer(f.Prod) {
				// the library's own read-seeker producer over a source of the caller's that reads in
				// chunks and/or fails transiently
				rs = &faultyRS{data: f.Content, p: f.Prod, calls: calls, armed: b.Armed}
			}
			if embed {
				m.EmbedReadSeeker(f.Name, rs, fopts...)
			} else {
				m.AttachReadSeeker(f.Name, rs, fopts...)
			}
		case "file":
			env.seq++
			dir := filepath.Join(env.Dir, fmt.Sprintf("d%d", env.seq))
			if err = os.MkdirAll(dir, 0o755); err != nil {
				return err
			}
			// the on-disk name has an extension of its own (with a well-known type), so that a type
			// derived from the source path instead of the declared file name shows
			path := filepath.Join(dir, "payload.html")
			if err = os.WriteFile(path, f.Content, 0o644); err != nil {
				return err
			}
			fopts = append(fopts, mail.WithFileName(f.Name))
			b.FilePaths = append(b.FilePaths, path)
			if embed {
				m.EmbedFile(path, fopts...)
			} else {
				m.AttachFile(path, fopts...)
			}
		case "embedfs":
			// a file compiled into the program (embed.FS); its content is fixed: EmbeddedPayload()
			fopts = append(fopts, mail.WithFileName(f.Name))
			if embed {
				err = m.EmbedFromEmbedFS("embedded/payload.bin", &embeddedFS, fopts...)
			} else {
				err = m.AttachFromEmbedFS("embedded/payload.bin", &embeddedFS, fopts...)
			}
		case "iofs-faulty":
			// the library's own fs.FS producer over a file system of the caller's whose file fails in Read
			fsys := faultyFS{data: f.Content, p: f.Prod, calls: calls, armed: b.Armed}
			fopts = append(fopts, mail.WithFileName(f.Name))
			if embed {
				err = m.EmbedFromIOFS("payload.json", fsys, fopts...)
			} else {
				err = m.AttachFromIOFS("payload.json", fsys, fopts...)
			}
		case "iofs":
			fsys := fstest.MapFS{"payload.json": &fstest.MapFile{Data: f.Content}}
			b.FSMaps = append(b.FSMaps, fsys)
			fopts = append(fopts, mail.WithFileName(f.Name))
			if embed {
				err = m.EmbedFromIOFS("payload.json", fsys, fopts...)
			} else {
				err = m.AttachFromIOFS("payload.json", fsys, fopts...)
			}
		case "texttpl":
			if embed {
				err = m.EmbedTextTemplate(f.Name, textTpl, string(f.Content), fopts...)
			} else {
				err = m.AttachTextTemplate(f.Name, textTpl, string(f.Content), fopts...)
			}
		case "htmltpl":
			if embed {
				err = m.EmbedHTMLTemplate(f.Name, htmlTpl, ht.HTML(f.Content), fopts...)
			} else {
				err = m.AttachHTMLTemplate(f.Name, htmlTpl, ht.HTML(f.Content), fopts...)
			}
		case "readseeker-pos":
			// the caller has read a prefix of its io.ReadSeeker before attaching it (sniffed the type)
			r := bytes.NewReader(f.Content)
			k := int64(len(f.Content) / 3)
			if k > 0 && k < int64(len(f.Content)) && f.Content[k-1] == '\r' && f.Content[k] == '\n' {
				k++ // do not split a CRLF (contents in canonical form stay canonical)
			}
			_, _ = io.CopyN(io.Discard, r, k)
			if embed {
				m.EmbedReadSeeker(f.Name, r, fopts...)
			} else {
				m.AttachReadSeeker(f.Name, r, fopts...)
			}
		case "reader-pos":
			// the caller has already consumed a prefix of its *bytes.Reader (e.g. sniffed a magic number):
			// what is attached is the rest
			r := bytes.NewReader(append([]byte("SNIFFED-PREFIX-"), f.Content...))
			_, _ = io.CopyN(io.Discard, r, int64(len("SNIFFED-PREFIX-")))
			if embed {
				err = m.EmbedReader(f.Name, r, fopts...)
			} else {
				err = m.AttachReader(f.Name, r, fopts...)
			}
			b.after = append(b.after, func() { _, _ = r.Seek(3, io.SeekStart) })
		case "reader-drain":
			// the caller keeps using its reader after attaching (AttachReader has taken a copy)
			r := strings.NewReader(string(f.Content))
			if embed {
				err = m.EmbedReader(f.Name, r, fopts...)
			} else {
				err = m.AttachReader(f.Name, r, fopts...)
			}
			b.after = append(b.after, func() { _, _ = r.Seek(0, io.SeekStart); _, _ = io.Copy(io.Discard, r) })
		case "buffer-reuse":
			// one scratch *bytes.Buffer is reused by the caller after the file was attached
			buf := bytes.NewBuffer(append([]byte{}, f.Content...))
			if embed {
				err = m.EmbedReader(f.Name, buf, fopts...)
			} else {
				err = m.AttachReader(f.Name, buf, fopts...)
			}
			reuses := 0
			b.after = append(b.after, func() {
				// different bytes every time the caller comes back to its scratch buffer
				reuses++
				buf.Reset()
				buf.WriteString(strings.Repeat(fmt.Sprintf("OVERWRITTEN-BY-THE-CALLER-%d ", reuses), 40))
			})
		default: // reader
			if embed {
				err = m.EmbedReader(f.Name, bytes.NewReader(f.Content), fopts...)
			} else {
				err = m.AttachReader(f.Name, bytes.NewReader(f.Content), fopts...)
			}
		}
		if err != nil {
			return err
		}
		mt := strings.ToLower(f.CType)
		if mt == "" {
			// no declared type: the documented behaviour is the type that belongs to the extension of
			// the file name the caller set (host MIME table), application/octet-stream otherwise
			mt = "application/octet-stream"
			if byExt := mime.TypeByExtension(filepath.Ext(f.Name)); byExt != "" {
				mt = strings.ToLower(strings.TrimSpace(strings.SplitN(byExt, ";", 2)[0]))
			}
		}
		l := Leaf{MediaType: mt, CTE: cte, Filename: Sanitize(f.Name), Desc: f.Desc, Content: f.Content}
		if embed {
			l.Kind = "embed"
			l.Disposition = "inline"
			l.CID = "<" + Sanitize(f.Name) + ">"
		} else {
			l.Kind = "attach"
			l.Disposition = "attachment"
		}
		if f.CID != "" {
			l.CID = f.CID
		}
		b.Leaves = append(b.Leaves, l)
		return nil
	}
	for i, f := range spec.Embeds {
		if err := addFile(f, true); err != nil {
			return nil, fmt.Errorf("embed %d: %w", i, err)
		}
	}
	for i, f := range spec.Attachments {
		if err := addFile(f, false); err != nil {
			return nil, fmt.Errorf("attachment %d: %w", i, err)
		}
	}
	for _, fn := range b.after {
		fn()
	}
	if spec.Middleware == "body" && len(spec.Parts) > 0 {
		// what a reader is expected to find is what the middleware makes of the first part
		b.Leaves[0].Content = []byte(MiddlewareBody)
	}
	return b, nil
}

// ---------------------------------------------------------------------------------------------
// generators

// GenOpts steers the message program generator.
type GenOpts struct {
	Encodings    []string // message encodings to draw from
	MaxParts     int
	MaxEmbeds    int
	MaxAttach    int
	AllowNoBody  bool
	PartEncs     []string // per-part encodings ("" = inherit)
	FileEncs     []string
	Descriptions bool
	TextOnlyQP   bool // QP parts get CRLF/LF text only (C01's domain)
	CRLFOnly     bool // canonical CRLF content everywhere (S/MIME)
	Sources      []string
	Vias         []string
	Chunking     bool
	SimpleNames  bool // file names from a benign pool
	// Boundaries: programs with exactly ONE multipart level (the documented domain of a predefined
	// boundary) get a caller-chosen boundary one time in four.
	Boundaries bool
	// MsgCharsets: one program in four declares a message charset (WithCharset) other than the default;
	// file names and descriptions of such a program are ASCII (the charset labels the encoded-words too,
	// and what a caller puts there is then in that charset).
	MsgCharsets bool
}

var benignNames = []string{"file.txt", "report.pdf", "image.png", "a b.dat", "data", "übung.txt", "日本.bin", "x;y=z.bin", "semi;colon.txt", "noext", "archive.tar.gz", "spaced name here.doc",
	"Screenshot 2024-01-01 at 10.00.00\u202fAM.png", "全角\u3000スペース.txt", "nbsp\u00a0name.doc", "family\U0001F468\u200d\U0001F469.png", "soft\u00adhyphen.txt", "r\xe9sum\xe9 latin1.pdf", "bom\ufeffname.bin",
	// printf verbs and URL escapes in ordinary ASCII names
	"Annual%20Report%202024.pdf", "progress 100%.pdf", "%s%d%v.txt", "100%!(NOVERB).bin"}

var benignDescs = []string{"", "", "", "a description", "Beschreibung mit ü", "desc; with=chars", "x", "100% of %s and %d"}

func chunkPlan(t *rapid.T, label string) []int {
	switch rapid.IntRange(0, 5).Draw(t, label+"-chunkkind") {
	case 0:
		return nil
	case 1:
		return []int{1}
	case 2:
		return []int{2, 3, 5, 7, 11, 13}
	case 3:
		return []int{rapid.SampledFrom([]int{3, 57, 76, 56, 58, 75, 77, 4, 2}).Draw(t, label+"-c")}
	default:
		return rapid.SliceOfN(rapid.IntRange(1, 120), 1, 5).Draw(t, label+"-chunks")
	}
}

// Program draws a message program.
func Program(t *rapid.T, o GenOpts) *MsgSpec {
	spec := &MsgSpec{FixedDate: true}
	spec.Encoding = rapid.SampledFrom(o.Encodings).Draw(t, "msgenc")
	if o.MsgCharsets && rapid.IntRange(0, 3).Draw(t, "msgcharset") == 0 {
		spec.Charset = rapid.SampledFrom([]string{"ISO-8859-1", "US-ASCII", "ISO-8859-15", "windows-1252", "UTF-8"}).Draw(t, "msgcharsetval")
	}
	asciiOnly := spec.Charset != "" && spec.Charset != "UTF-8"
	isASCII := func(s string) bool {
		for i := 0; i < len(s); i++ {
			if s[i] >= 0x80 {
				return false
			}
		}
		return true
	}
	minParts := 1
	if o.AllowNoBody && rapid.IntRange(0, 5).Draw(t, "nobody") == 0 {
		minParts = 0
	}
	nParts := minParts
	if minParts == 1 {
		nParts = rapid.IntRange(1, o.MaxParts).Draw(t, "nparts")
	}
	nEmb := rapid.IntRange(0, o.MaxEmbeds).Draw(t, "nembeds")
	nAtt := rapid.IntRange(0, o.MaxAttach).Draw(t, "nattach")
	if nParts == 0 && nEmb+nAtt == 0 {
		nAtt = 1
	}
	vias := o.Vias
	if len(vias) == 0 {
		vias = []string{"string", "writer", "texttpl", "htmltpl"}
	}
	for i := 0; i < nParts; i++ {
		p := PartSpec{}
		p.CType = rapid.SampledFrom([]string{"text/plain", "text/html"}).Draw(t, "ctype")
		if len(o.PartEncs) > 0 {
			p.Enc = rapid.SampledFrom(o.PartEncs).Draw(t, "partenc")
		}
		if rapid.IntRange(0, 3).Draw(t, "pcs") == 0 {
			p.Charset = rapid.SampledFrom([]string{"UTF-8", "ISO-8859-1", "US-ASCII"}).Draw(t, "partcharset")
		}
		if o.Descriptions {
			p.Desc = rapid.SampledFrom(benignDescs).Draw(t, "pdesc")
			if asciiOnly && !isASCII(p.Desc) {
				p.Desc = "an ASCII description"
			}
			p.DescBySetter = rapid.IntRange(0, 2).Draw(t, "pdescsetter") == 0
		}
		eff := p.Enc
		if eff == "" {
			eff = spec.Encoding
		}
		switch {
		case o.CRLFOnly:
			p.Content = TextContent(t, "pc", false, false)
		case eff == "quoted-printable" && o.TextOnlyQP:
			p.Content = TextContent(t, "pc", true, false)
		case eff == "7bit":
			p.Content = TextContent(t, "pc", false, false)
		default:
			if rapid.Bool().Draw(t, "ptext") {
				p.Content = TextContent(t, "pc", true, true)
			} else {
				p.Content = BinaryContent(t, "pc")
			}
		}
		p.Via = rapid.SampledFrom(vias).Draw(t, "via")
		if p.Via == "texttpl" && p.CType != "text/plain" || p.Via == "htmltpl" && p.CType != "text/html" {
			p.Via = "string"
		}
		if o.Chunking && p.Via == "writer" {
			p.Prod.Chunks = chunkPlan(t, "pchunk")
		}
		spec.Parts = append(spec.Parts, p)
	}
	srcs := append([]string{}, o.Sources...)
	if len(srcs) == 0 {
		srcs = []string{"reader", "readseeker", "file", "iofs", "texttpl", "htmltpl", "writer", "reader-pos", "reader-drain", "buffer-reuse", "embedfs"}
	}
	if os.Getenv("VERIF_GEN_EXCLUDE") != "" {
		kept := srcs[:0]
		for _, s := range srcs {
			if !Excluded(s) {
				kept = append(kept, s)
			}
		}
		srcs = kept
	}
	file := func(label string) FileSpec {
		f := FileSpec{}
		if o.SimpleNames {
			f.Name = rapid.SampledFrom(benignNames).Draw(t, label+"name")
		} else {
			f.Name = rapid.SampledFrom(benignNames).Draw(t, label+"name")
		}
		if asciiOnly && !isASCII(f.Name) {
			f.Name = "ascii name " + label + ".bin"
		}
		if len(o.FileEncs) > 0 {
			f.Enc = rapid.SampledFrom(o.FileEncs).Draw(t, label+"enc")
		}
		if rapid.Bool().Draw(t, label+"hasct") {
			f.CType = rapid.SampledFrom([]string{"application/octet-stream", "text/plain", "image/png", "application/pdf", "application/x-verif"}).Draw(t, label+"ct")
		}
		if o.Descriptions {
			f.Desc = rapid.SampledFrom(benignDescs).Draw(t, label+"desc")
			if asciiOnly && !isASCII(f.Desc) {
				f.Desc = "an ASCII description"
			}
		}
		if rapid.IntRange(0, 3).Draw(t, label+"hascid") == 0 {
			f.CID = rapid.SampledFrom([]string{"<cid1@verif>", "<image.1>", "<a.b.c@example.com>"}).Draw(t, label+"cid")
		}
		switch {
		case o.CRLFOnly:
			f.Content = TextContent(t, label+"c", false, false)
		case f.Enc == "7bit":
			f.Content = TextContent(t, label+"c", false, false)
		default:
			f.Content = BinaryContent(t, label+"c")
		}
		f.Source = rapid.SampledFrom(srcs).Draw(t, label+"src")
		if f.Source == "embedfs" {
			if o.CRLFOnly || f.Enc == "7bit" {
				f.Source = "reader" // the embedded file is binary
			} else {
				f.Content = EmbeddedPayload()
			}
		}
		if o.Chunking && f.Source == "writer" {
			f.Prod.Chunks = chunkPlan(t, label+"chunk")
		}
		return f
	}
	for i := 0; i < nEmb; i++ {
		spec.Embeds = append(spec.Embeds, file("emb"))
	}
	for i := 0; i < nAtt; i++ {
		spec.Attachments = append(spec.Attachments, file("att"))
	}
	if o.Boundaries && strings.Count(ExpectedShape(nParts, nEmb, nAtt), "(") == 1 && rapid.IntRange(0, 3).Draw(t, "ownboundary") == 0 {
		spec.Boundary = rapid.SampledFrom([]string{"vErIf.BoUnDaRy_0123-xyz", "=_VerifNextPart_000_0123_01DA.ABCD", "verif'boundary(with)+specials,/:=?",
			// lengths at which "Content-Type: multipart/...; boundary=..." on one line would pass column 78
			"0123456789abcdef0123456789abcdef0123", "----=_NextPart_0123456789abcdef0123456789abcd", "uuid-1b4e28ba-2fa1-11d2-883f-0016d3cca427-part"}).Draw(t, "boundary")
	}
	spec.From = "sender@verif.example"
	spec.To = []string{"rcpt@verif.example"}
	s := "verif subject"
	spec.Subject = &s
	return spec
}

// ShapeKey summarises the shape of a program for fingerprints.
func (s *MsgSpec) ShapeKey() string {
	var sb strings.Builder
	fmt.Fprintf(&sb, "%s/p%d/e%d/a%d", s.Encoding, len(s.Parts), len(s.Embeds), len(s.Attachments))
	if s.Boundary != "" {
		sb.WriteString("/ownboundary")
	}
	for _, p := range s.Parts {
		fmt.Fprintf(&sb, "/%s:%s:%s", p.CType, p.Enc, strings.Join(ContentClasses(p.Content), "+"))
	}
	for _, f := range s.Embeds {
		fmt.Fprintf(&sb, "/E:%s:%s", f.Enc, strings.Join(ContentClasses(f.Content), "+"))
	}
	for _, f := range s.Attachments {
		fmt.Fprintf(&sb, "/A:%s:%s", f.Enc, strings.Join(ContentClasses(f.Content), "+"))
	}
	return sb.String()
}

// ExpectedShape is the nesting the property demands, in mimeread.Entity.Shape notation.
func ExpectedShape(parts, embeds, attach int) string {
	rep := func(n int) []string {
		out := make([]string, n)
		for i := range out {
			out[i] = "L"
		}
		return out
	}
	// innermost: parts
	var inner []string
	if parts >= 2 {
		inner = []string{"alternative(" + strings.Join(rep(parts), ",") + ")"}
	} else {
		inner = rep(parts)
	}
	// related level
	lvl := append(append([]string{}, inner...), rep(embeds)...)
	hasRelated := embeds >= 1 && (parts >= 1 || embeds >= 2)
	if hasRelated {
		lvl = []string{"related(" + strings.Join(lvl, ",") + ")"}
	}
	lvl2 := append(append([]string{}, lvl...), rep(attach)...)
	hasMixed := attach >= 1 && (parts+embeds >= 1 || attach >= 2)
	if hasMixed {
		return "mixed(" + strings.Join(lvl2, ",") + ")"
	}
	if len(lvl2) == 1 {
		return lvl2[0]
	}
	return "INVALID(" + strings.Join(lvl2, ",") + ")"
}
