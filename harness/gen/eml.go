package gen

import (
	"encoding/base64"
	"fmt"
	"regexp"
	"strings"

	"pgregory.net/rapid"
)

// EMLDoc draws a syntactically valid EML document from a small grammar: a header list and a
// single-part or (nested) multipart body with all transfer encodings.
func EMLDoc(t *rapid.T) string {
	var sb strings.Builder
	hdr := func(k, v string) { sb.WriteString(k + ": " + v + "\r\n") }
	if rapid.IntRange(0, 9).Draw(t, "hasdate") != 0 {
		hdr("Date", rapid.SampledFrom([]string{"Mon, 02 Jan 2006 15:04:05 +0000", "Tue, 3 Jun 2025 09:01:02 -0700 (PDT)", "not a date", "1 Jan 70 00:00 GMT"}).Draw(t, "date"))
	}
	hdr("MIME-Version", "1.0")
	hdr("Message-ID", "<"+rapid.StringMatching(`[a-z0-9]{5,12}`).Draw(t, "mid")+"@verif.example>")
	hdr("Subject", rapid.SampledFrom([]string{"plain subject", "=?UTF-8?q?caf=C3=A9?=", "=?UTF-8?b?5pel5pys6Kqe?= =?UTF-8?q?_more?=", "", "=?x?q?broken", "a\r\n folded\r\n\tsubject"}).Draw(t, "subject"))
	hdr("From", rapid.SampledFrom([]string{"sender@verif.example", "\"Sender Name\" <sender@verif.example>", "=?UTF-8?q?T=C3=B6ni?= <t@verif.example>", "broken <", "a@b, c@d"}).Draw(t, "from"))
	if rapid.Bool().Draw(t, "hasto") {
		hdr("To", rapid.SampledFrom([]string{"rcpt@verif.example", "a@verif.example, \"B, C\" <b@verif.example>", "undisclosed-recipients:;", "<>", "@"}).Draw(t, "to"))
	}
	if rapid.IntRange(0, 2).Draw(t, "hascc") == 0 {
		hdr("Cc", rapid.SampledFrom([]string{"cc@verif.example", "x", "\"unterminated <cc@verif.example>"}).Draw(t, "cc"))
	}
	for i := 0; i < rapid.IntRange(0, 2).Draw(t, "nextra"); i++ {
		hdr(rapid.SampledFrom([]string{"X-Mailer", "User-Agent", "Organization", "Importance", "X-Priority", "X-MSMail-Priority", "Priority", "MIME-Version", "Content-Length", "Lines", "References", "In-Reply-To", "List-Unsubscribe", "Precedence"}).Draw(t, "xk"),
			rapid.SampledFrom([]string{"value", "", "high", "1", "<a@b> <c@d>", "=?UTF-8?q?x?=",
				// numbers at and beyond the edges of whatever range a reader expects
				"0", "00", "+0", "-1", "5", "6", "99", "0 (None)", "1 (Highest)", "-2147483648", "2147483648", "9223372036854775808", "1e3", "0x10", " 3 "}).Draw(t, "xv"))
	}
	emlEntity(t, &sb, 0, nil)
	return sb.String()
}

var emlCTEs = []string{"quoted-printable", "base64", "7bit", "8bit", "binary", "", "QUOTED-PRINTABLE", "x-unknown"}

func emlBody(t *rapid.T, cte string) string {
	text := rapid.SampledFrom([]string{"hello world\r\n", "line one\r\nline two\r\n.\r\n", "", "caf\xc3\xa9 =3D\r\n", strings.Repeat("long ", 40) + "\r\n", "no newline at end", "--not-a-boundary\r\n"}).Draw(t, "text")
	switch strings.ToLower(cte) {
	case "base64":
		e := base64.StdEncoding.EncodeToString([]byte(text))
		var sb strings.Builder
		for len(e) > 76 {
			sb.WriteString(e[:76] + "\r\n")
			e = e[76:]
		}
		sb.WriteString(e + "\r\n")
		if rapid.IntRange(0, 7).Draw(t, "badb64") == 0 {
			return sb.String() + "!!!not base64!!!\r\n"
		}
		return sb.String()
	case "quoted-printable":
		r := strings.NewReplacer("=", "=3D", "\xc3", "=C3", "\xa9", "=A9")
		out := r.Replace(text)
		if rapid.IntRange(0, 7).Draw(t, "badqp") == 0 {
			out += "=ZZ bad escape=\r\n="
		}
		return out
	}
	return text
}

func emlEntity(t *rapid.T, sb *strings.Builder, depth int, outer []string) {
	kind := rapid.IntRange(0, 5).Draw(t, fmt.Sprintf("kind%d", depth))
	if depth >= 3 {
		kind = 0
	}
	switch {
	case kind <= 1: // text leaf
		ct := rapid.SampledFrom([]string{"text/plain; charset=UTF-8", "text/html; charset=utf-8", "text/plain", "text/plain; charset=\"ISO-8859-1\"; format=flowed", "TEXT/PLAIN; CHARSET=us-ascii"}).Draw(t, "leafct")
		cte := rapid.SampledFrom(emlCTEs).Draw(t, "cte")
		sb.WriteString("Content-Type: " + ct + "\r\n")
		if cte != "" {
			sb.WriteString("Content-Transfer-Encoding: " + cte + "\r\n")
		}
		sb.WriteString("\r\n" + emlBody(t, cte))
	case kind == 2 && depth > 0: // file leaf
		name := rapid.SampledFrom([]string{"file.txt", "a b.pdf", "=?UTF-8?q?=C3=BCbung.txt?=", "semi;colon.bin", "x", "", "quote\"d.txt", "日本.dat"}).Draw(t, "fname")
		disp := rapid.SampledFrom([]string{"attachment", "inline", "ATTACHMENT", "form-data", ""}).Draw(t, "disp")
		cte := rapid.SampledFrom([]string{"base64", "base64", "quoted-printable", "8bit", "7bit"}).Draw(t, "fcte")
		sb.WriteString(fmt.Sprintf("Content-Type: application/octet-stream; name=\"%s\"\r\n", name))
		sb.WriteString("Content-Transfer-Encoding: " + cte + "\r\n")
		switch rapid.IntRange(0, 3).Draw(t, "dispform") {
		case 0:
			sb.WriteString(fmt.Sprintf("Content-Disposition: %s; filename=\"%s\"\r\n", disp, name))
		case 1:
			sb.WriteString(fmt.Sprintf("Content-Disposition: %s; filename=%s\r\n", disp, name))
		case 2:
			sb.WriteString(fmt.Sprintf("Content-Disposition: %s\r\n", disp))
		default:
			sb.WriteString(fmt.Sprintf("Content-Disposition: %s; size=3; filename=\"%s\"; creation-date=\"x\"\r\n", disp, name))
		}
		if rapid.Bool().Draw(t, "hascid") {
			sb.WriteString("Content-ID: <" + name + ">\r\n")
		}
		sb.WriteString("\r\n" + emlBody(t, cte))
	default: // multipart
		sub := rapid.SampledFrom([]string{"mixed", "alternative", "related", "mixed", "signed", "report"}).Draw(t, "mpsub")
		b := rapid.SampledFrom([]string{"b0undary", "----=_NextPart_000", "a", strings.Repeat("x", 70), "with space", "=_b'()+_,-./:=?"}).Draw(t, "boundary") + fmt.Sprint(depth)
		if len(outer) > 0 && rapid.IntRange(0, 9).Draw(t, "reuse") == 0 {
			b = outer[len(outer)-1]
		}
		sb.WriteString(fmt.Sprintf("Content-Type: multipart/%s;\r\n boundary=\"%s\"\r\n\r\n", sub, b))
		if rapid.Bool().Draw(t, "preamble") {
			sb.WriteString("This is a multi-part message in MIME format.\r\n")
		}
		n := rapid.IntRange(0, 3).Draw(t, "nchildren")
		for i := 0; i < n; i++ {
			sb.WriteString("--" + b + "\r\n")
			emlEntity(t, sb, depth+1, append(outer, b))
			sb.WriteString("\r\n")
		}
		if rapid.IntRange(0, 5).Draw(t, "closed") != 0 {
			sb.WriteString("--" + b + "--\r\n")
		}
		if rapid.IntRange(0, 3).Draw(t, "epilogue") == 0 {
			sb.WriteString("epilogue text\r\n")
		}
	}
}

// EMLDictionary holds hostile constants used by the mutators and as a fuzzing dictionary.
var EMLDictionary = []string{
	"X-Priority: 0\r\n", "X-Priority: -1\r\n", "X-Priority: 0 (None)\r\n", "X-Priority: 99999999999999999999\r\n", "Importance: 0\r\n", "Priority: -1\r\n", "MIME-Version: 0\r\n", "Content-Length: -1\r\n",
	"Content-Disposition: attachment; filename=\r\n", "Content-Disposition: attachment; filename=x\r\n", "Content-Disposition: inline; filename=\"\r\n",
	"Content-Disposition: ;\r\n", "Content-Disposition: attachment; filename\r\n", "Content-Type: multipart/mixed\r\n", "Content-Type: multipart/mixed; boundary=\r\n",
	"Content-Type: multipart/related; boundary=\"\"\r\n", "Content-Type: ;\r\n", "Content-Type: text/plain; charset\r\n", "Content-Type: text/plain; charset=\r\n",
	"Content-Transfer-Encoding: base64\r\n", "Content-Transfer-Encoding: \r\n", "Content-ID: \r\n", "Content-ID: ;\r\n", "--", "--\r\n", "\r\n\r\n", "\n", "\r", ";", "=", "\"", "=?UTF-8?q?", "?=",
	"filename=", "filename=\"", "filename=;", "boundary=", "boundary=\"", "name=", ":", ": ", "\x00", "\xff", "Date: \r\n", "From: \r\n", "To: ,\r\n", "Subject:\r\n",
	"Content-Transfer-Encoding: binary\r\n", "Content-Transfer-Encoding: x-uuencode\r\n", "Content-Transfer-Encoding: 7-bit\r\n", "Content-Transfer-Encoding: base64 (really)\r\n", "Content-Transfer-Encoding: BASE64\r\n", "Content-Transfer-Encoding: 8BIT\r\n",
	// RFC 822 comments and stray parentheses in MIME header values, address groups, obsolete syntax
	"Content-Type: text/plain; charset=us-ascii (Plain text)\r\n", "Content-Type: text/plain (a (nested) comment); charset=utf-8\r\n", "Content-Disposition: attachment; filename=\"holiday :) (1).jpg\"\r\n",
	"Content-Type: application/pdf; name=\"notes ;-)(final).pdf\"\r\n", "Content-Transfer-Encoding: base64 (comment\r\n", "Content-ID: <a)b(c@d>\r\n", ")", "(", ")(", "()", " (", ") ",
	"From: Nightly Monitor Robot:;\r\n", "To: undisclosed-recipients:;\r\n", "To: group: a@b.example, c@d.example;\r\n", "Cc: \"A Group\":;\r\n", "From: a@b.example, c@d.example\r\n",
	"Content-Type: text/plain; charset*=utf-8''x\r\n", "Content-Disposition: attachment; filename*0=\"a\"; filename*1=\"b\"\r\n", "Content-Type: multipart/mixed; boundary=\"a b\"\r\n",
}

var emlParamRe = regexp.MustCompile(`(?i)(filename|name|boundary|charset)=("[^"\r\n]*"|[^;\r\n]*)`)

// MutateEML applies one structure-aware mutation.
func MutateEML(t *rapid.T, doc string, i int) string {
	label := fmt.Sprintf("mut%d", i)
	switch rapid.IntRange(0, 11).Draw(t, label+"-kind") {
	case 0, 1: // damage a parameter value
		locs := emlParamRe.FindAllStringSubmatchIndex(doc, -1)
		if len(locs) == 0 {
			return doc
		}
		loc := locs[rapid.IntRange(0, len(locs)-1).Draw(t, label+"-which")]
		val := rapid.SampledFrom([]string{"", "\"", "x", "\"x", "x\"", "\"\"", "\"a;b\"", ";", "=", "\"" + strings.Repeat("y", 300) + "\"", "\"=?UTF-8?q?broken\"", " ", "\"\r\n\"", "\"x :) (1).jpg\"", "x)(y", "(c) x", "x (c", ")"}).Draw(t, label+"-val")
		return doc[:loc[4]] + val + doc[loc[5]:]
	case 2: // truncate
		if len(doc) == 0 {
			return doc
		}
		return doc[:rapid.IntRange(0, len(doc)).Draw(t, label+"-trunc")]
	case 3: // delete a range
		if len(doc) < 2 {
			return doc
		}
		a := rapid.IntRange(0, len(doc)-1).Draw(t, label+"-a")
		n := rapid.IntRange(1, 40).Draw(t, label+"-n")
		if a+n > len(doc) {
			n = len(doc) - a
		}
		return doc[:a] + doc[a+n:]
	case 4: // duplicate a line
		lines := strings.SplitAfter(doc, "\n")
		k := rapid.IntRange(0, len(lines)-1).Draw(t, label+"-line")
		return strings.Join(lines[:k+1], "") + lines[k] + strings.Join(lines[k+1:], "")
	case 5: // line ending variants
		switch rapid.IntRange(0, 2).Draw(t, label+"-le") {
		case 0:
			return strings.ReplaceAll(doc, "\r\n", "\n")
		case 1:
			return strings.ReplaceAll(doc, "\r\n", "\r")
		default:
			return strings.Replace(doc, "\r\n\r\n", "\r\n", 1)
		}
	case 6, 7: // insert a hostile constant at a line start or anywhere
		c := rapid.SampledFrom(EMLDictionary).Draw(t, label+"-const")
		if len(doc) == 0 {
			return c
		}
		if rapid.Bool().Draw(t, label+"-atline") {
			lines := strings.SplitAfter(doc, "\n")
			k := rapid.IntRange(0, len(lines)-1).Draw(t, label+"-line")
			return strings.Join(lines[:k], "") + c + strings.Join(lines[k:], "")
		}
		p := rapid.IntRange(0, len(doc)).Draw(t, label+"-pos")
		return doc[:p] + c + doc[p:]
	case 8: // header name without value / value without name
		lines := strings.SplitAfter(doc, "\n")
		k := rapid.IntRange(0, len(lines)-1).Draw(t, label+"-line")
		if j := strings.IndexByte(lines[k], ':'); j >= 0 {
			if rapid.Bool().Draw(t, label+"-side") {
				lines[k] = lines[k][:j+1] + "\r\n"
			} else {
				lines[k] = lines[k][j:]
			}
		}
		return strings.Join(lines, "")
	case 9: // swap transfer encodings
		if rapid.Bool().Draw(t, label+"-unlisted") {
			// a transfer encoding the parser has no case for (legal: binary; or simply unknown)
			return regexp.MustCompile(`(?i)(Content-Transfer-Encoding:\s*)[A-Za-z0-9-]+`).ReplaceAllString(doc, "${1}"+rapid.SampledFrom([]string{"binary", "x-uuencode", "7-bit", "BASE64", "8BIT", "quoted-printable (sort of)"}).Draw(t, label+"-cte"))
		}
		r := strings.NewReplacer("base64", "quoted-printable", "quoted-printable", "base64", "8bit", "base64", "7bit", "quoted-printable")
		return r.Replace(doc)
	case 10: // boundary games
		switch rapid.IntRange(0, 2).Draw(t, label+"-b") {
		case 0:
			return strings.Replace(doc, "boundary=", "boundry=", 1)
		case 1:
			return strings.ReplaceAll(doc, "--", "-")
		default:
			return strings.Replace(doc, "multipart/", "multipart", 1)
		}
	default: // flip a byte
		if len(doc) == 0 {
			return doc
		}
		p := rapid.IntRange(0, len(doc)-1).Draw(t, label+"-pos")
		b := []byte(doc)
		b[p] = rapid.Byte().Draw(t, label+"-byte")
		return string(b)
	}
}
