package gen

import (
	"fmt"
	"strings"

	"pgregory.net/rapid"
)

// Hostile draws a hostile header string. Every string carries the marker so that an injected
// field or a truncated value can be attributed. Classes are drawn explicitly and can be combined.
func Hostile(t *rapid.T, label, marker string) string {
	n := rapid.IntRange(1, 3).Draw(t, label+"-nfrag")
	var sb strings.Builder
	sb.WriteString(marker)
	for i := 0; i < n; i++ {
		sb.WriteString(hostileFragment(t, label, marker, i))
	}
	s := sb.String()
	if len(s) > 4200 {
		s = s[:4200]
	}
	// one string in ten is dressed up as a single encoded-word (so that it starts with "=?" and ends
	// with "?="), whatever it contains
	if rapid.IntRange(0, 9).Draw(t, label+"-wrapew") == 0 {
		s = rapid.SampledFrom([]string{"=?UTF-8?q?", "=?utf-8?B?", "=?x?q?"}).Draw(t, label+"-ewhead") + strings.ReplaceAll(s, "?", "") + "?="
	}
	return s
}

var hostileConsts = []string{
	"\r", "\n", "\r\n", "\n\r", "\r\r\n", "\r\n ", "\r\n\t", "\x00", "\x01", "\x07", "\x0b", "\x0c", "\x1b", "\x7f",
	"\xff", "\xc3", "\xe2\x82", "\xed\xa0\x80", "\"", "\\", "\\\"", "\"\"", "(", ")", "(comment)", "<", ">", "<x@y>", "@", ",", ";", ":", "::",
	" ", "  ", "\t", " \t ", "é", "ü", "日本語", "\U0001F600", "=", "?", "=?", "?=", "_",
	"%s", "%d", "%%", "%!s(MISSING)", "%n", "%v%v", "{{.}}", "${x}",
}

func hostileFragment(t *rapid.T, label, marker string, i int) string {
	kind := rapid.IntRange(0, 14).Draw(t, fmt.Sprintf("%s-kind%d", label, i))
	switch kind {
	case 0: // header injection
		brk := rapid.SampledFrom([]string{"\r\n", "\n", "\r", "\r\n\r\n", "\n\n"}).Draw(t, label+"-brk")
		return brk + "X-Inj-" + marker + ": 1" + rapid.SampledFrom([]string{"", "\r\n", "\r\n\r\nbody " + marker}).Draw(t, label+"-tail")
	case 1: // body injection
		return "\r\n\r\ninjected body " + marker + "\r\n"
	case 2, 3:
		k := rapid.IntRange(1, 4).Draw(t, label+"-nconst")
		var sb strings.Builder
		for j := 0; j < k; j++ {
			sb.WriteString(rapid.SampledFrom(hostileConsts).Draw(t, label+"-const"))
			if rapid.Bool().Draw(t, label+"-sep") {
				sb.WriteString("w")
			}
		}
		return sb.String()
	case 4: // encoded-word lookalikes
		return rapid.SampledFrom([]string{"=?UTF-8?q?evil?=", " =?UTF-8?q?ev=69l?= ", "=?utf-8?b?ZXZpbA==?=", "=?UTF-8?q?a?= =?UTF-8?q?b?=", "=?UTF-8?q?", "?= x", "=?x?q??=", "=?UTF-8?Q?=0D=0AX-Inj:_1?="}).Draw(t, label+"-ew")
	case 5: // long single word
		return strings.Repeat(rapid.SampledFrom([]string{"a", "é", "=", "x."}).Draw(t, label+"-wch"), rapid.SampledFrom([]int{60, 70, 75, 76, 77, 78, 79, 100, 300}).Draw(t, label+"-wlen"))
	case 14: // one very long blank-free ASCII token (a signed URL, a JWT): around the 998-character line limit and beyond
		n := rapid.SampledFrom([]int{900, 990, 995, 996, 997, 998, 999, 1000, 1200, 1996, 2500, 4000}).Draw(t, label+"-toklen")
		unit := rapid.SampledFrom([]string{"a", "abcdefghij", "x.", "aB3-_"}).Draw(t, label+"-tokunit")
		return strings.Repeat(unit, n/len(unit)+1)[:n]
	case 6: // many words
		k := rapid.IntRange(2, 40).Draw(t, label+"-nwords")
		var parts []string
		for j := 0; j < k; j++ {
			parts = append(parts, strings.Repeat("w", rapid.IntRange(0, 14).Draw(t, label+"-wl")))
		}
		return " " + strings.Join(parts, " ")
	case 7: // blanks
		return rapid.SampledFrom([]string{" ", "  ", "   ", "\t", " \t", "                                                                                "}).Draw(t, label+"-bl")
	case 8: // non-ASCII text
		return rapid.SampledFrom([]string{"Grüße aus Köln", "日本語のテキスト", "Ελληνικά", "emoji \U0001F600 text", "naïve café"}).Draw(t, label+"-na")
	case 9: // arbitrary bytes
		return string(rapid.SliceOfN(rapid.Byte(), 1, 24).Draw(t, label+"-bytes"))
	case 10: // specials mix
		return rapid.StringMatching(`[ "\\()<>@,;:\[\]a-z]{1,20}`).Draw(t, label+"-spec")
	case 11: // looks like a header / boundary
		return rapid.SampledFrom([]string{"Content-Type: text/html", "\r\nContent-Type: text/html\r\n", "\r\n--boundary", "\r\n.\r\n", "Bcc: x@y.z", "\r\nBcc: x@y.z"}).Draw(t, label+"-hdr")
	default: // benign
		return rapid.SampledFrom([]string{"plain text", "Hello World", "a", "Re: Fwd: something", "x=y; z"}).Draw(t, label+"-benign")
	}
}

// HostileClasses labels a hostile string.
func HostileClasses(s string) []string {
	var out []string
	add := func(c string) { out = append(out, c) }
	if strings.ContainsAny(s, "\r\n") {
		add("crlf")
	}
	ctl, hi, spec := false, false, false
	for i := 0; i < len(s); i++ {
		c := s[i]
		if c < 32 && c != '\r' && c != '\n' && c != '\t' || c == 127 {
			ctl = true
		}
		if c >= 0x80 {
			hi = true
		}
		if strings.IndexByte("\"\\()<>@,;:", c) >= 0 {
			spec = true
		}
	}
	if ctl {
		add("ctl")
	}
	if hi {
		add("nonascii")
	}
	if spec {
		add("specials")
	}
	if strings.Contains(s, "=?") && strings.Contains(s, "?=") {
		add("ewlike")
	}
	if len(s) > 60 {
		add("long")
	}
	if strings.Contains(s, "  ") || strings.HasPrefix(s, " ") || strings.HasSuffix(s, " ") {
		add("blanks")
	}
	if len(out) == 0 {
		add("benign")
	}
	return out
}

// HostileNonTrivial implements the NT rule of C02: a byte outside printable ASCII, a special, or
// more than 60 bytes.
func HostileNonTrivial(s string) bool {
	if len(s) > 60 {
		return true
	}
	for i := 0; i < len(s); i++ {
		c := s[i]
		if c < 32 || c >= 127 || strings.IndexByte("\"\\()<>@,;:", c) >= 0 {
			return true
		}
	}
	return false
}

// HostileSingles is the fixed list of single hostile strings used by the exhaustive
// setter x string enumeration (marker included so that injected fields are attributable).
func HostileSingles(marker string) []string {
	out := []string{
		marker + "\r\nX-Inj-" + marker + ": 1", marker + "\nX-Inj-" + marker + ": 1", marker + "\rX-Inj-" + marker + ": 1",
		marker + "\r\n\r\ninjected body " + marker, marker + "\n\ninjected body", marker + "\r\n X-Inj-" + marker + ": folded",
		"\r\nX-Inj-" + marker + ": leading", marker + "\r\n", marker + "\r", marker + "\n",
		marker + " =?UTF-8?q?evil?=", "=?UTF-8?q?" + marker + "?=", marker + "=?utf-8?b?ZXZpbA==?=",
		"=?UTF-8?q?" + marker + "\r\nX-Inj-" + marker + ": 1 ?=", "=?UTF-8?b?" + marker + "\r\n\r\ninjected body?=", "=?UTF-8?q?" + marker + "\nBcc: x@verif.example\n?=", "=?x?Q?" + marker + "\x00\xff caf\u00e9?=",
		marker + strings.Repeat("x", 300), marker + " " + strings.Repeat("word ", 60), marker + strings.Repeat("\u00e9", 120),
		marker + strings.Repeat("t", 994), marker + strings.Repeat("t", 1000), marker + " " + strings.Repeat("abcdefghij", 250) + " tail",
		marker + "Content-Type: text/html", marker + "\r\nContent-Type: text/html\r\n", marker + "\r\n--boundary--", marker + "\r\n.\r\n",
		marker + "\r\nBcc: x@verif.example",
	}
	for _, c := range hostileConsts {
		out = append(out, marker+c+"w")
	}
	return out
}
