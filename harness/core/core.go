// Package core holds the run-time scaffolding shared by all property checks: evidence counters,
// known-finding lookup, violation side files, replay and the rapid driver.
package core

import (
	"crypto/sha256"
	"encoding/hex"
	"encoding/json"
	"fmt"
	"os"
	"path/filepath"
	"sort"
	"strconv"
	"strings"
	"sync"
	"testing"

	"pgregory.net/rapid"
)

// Violation describes one way in which a case broke the property.
type Violation struct {
	// Key is a machine-computed signature of the violation class. Known findings are matched on it.
	Key string `json:"key"`
	// Msg is the human readable description (observed vs expected).
	Msg string `json:"msg"`
	// Fatal: the process cannot go on after this violation (e.g. goroutines of the code under test
	// are spinning forever); the side file is written and the process exits at once.
	Fatal bool `json:"fatal,omitempty"`
}

func (v *Violation) String() string { return v.Key + ": " + v.Msg }

// V builds a violation.
func V(key, format string, args ...interface{}) *Violation {
	return &Violation{Key: key, Msg: fmt.Sprintf(format, args...)}
}

// ---------------------------------------------------------------------------------------------
// environment

var (
	OutDir    = os.Getenv("VERIF_OUT")
	ReplayArg = os.Getenv("VERIF_REPLAY")
	Tier      = envDefault("VERIF_TIER", "quick")
	Shard     = envInt("VERIF_SHARD", 0)
	Shards    = envInt("VERIF_SHARDS", 1)
	Root      = envDefault("VERIF_ROOT", "/verif")
	Seed      = envInt("VERIF_SEED", 0)
)

func envDefault(k, d string) string {
	if v := os.Getenv(k); v != "" {
		return v
	}
	return d
}

func envInt(k string, d int) int {
	if v := os.Getenv(k); v != "" {
		if n, err := strconv.Atoi(v); err == nil {
			return n
		}
	}
	return d
}

// Thorough reports whether the thorough tier was requested.
func Thorough() bool { return Tier == "thorough" }

// ---------------------------------------------------------------------------------------------
// known findings

type knownFile struct {
	Findings []struct {
		Property string `json:"property"`
		Key      string `json:"key"`
		What     string `json:"what"`
	} `json:"findings"`
}

var (
	knownOnce sync.Once
	knownSet  map[string]string
)

// IsKnown reports whether (property, key) is listed in known_findings.json.
func IsKnown(prop, key string) bool {
	knownOnce.Do(func() {
		knownSet = map[string]string{}
		data, err := os.ReadFile(filepath.Join(Root, "known_findings.json"))
		if err != nil {
			return
		}
		var kf knownFile
		if json.Unmarshal(data, &kf) != nil {
			return
		}
		for _, f := range kf.Findings {
			knownSet[f.Property+"/"+f.Key] = f.What
		}
	})
	_, ok := knownSet[prop+"/"+key]
	return ok
}

// ---------------------------------------------------------------------------------------------
// evidence recorder

// Recorder accumulates what a run covered.
type Recorder struct {
	mu          sync.Mutex
	Prop        string
	Rule        string
	Assumptions []string
	Exhaustive  bool
	evals       int
	skipped     int
	nontrivial  int
	fps         map[string]struct{}
	classes     map[string]int
	known       map[string]int
	samples     []interface{}
	sampleKeys  map[string]bool
	extra       map[string]interface{}
}

var (
	recMu sync.Mutex
	recs  = map[string]*Recorder{}
)

// Rec returns the recorder of a property (one per process).
func Rec(prop string) *Recorder {
	recMu.Lock()
	defer recMu.Unlock()
	r, ok := recs[prop]
	if !ok {
		r = &Recorder{Prop: prop, fps: map[string]struct{}{}, classes: map[string]int{}, known: map[string]int{},
			sampleKeys: map[string]bool{}, extra: map[string]interface{}{}}
		recs[prop] = r
	}
	return r
}

// Eval counts one generated/executed case.
func (r *Recorder) Eval() { r.mu.Lock(); r.evals++; r.mu.Unlock() }

// Skip counts a case rejected by a precondition.
func (r *Recorder) Skip() { r.mu.Lock(); r.skipped++; r.mu.Unlock() }

// NonTrivial records a non-trivial case with its fingerprint (distinctness is by fingerprint).
func (r *Recorder) NonTrivial(fingerprint string) {
	h := sha256.Sum256([]byte(fingerprint))
	r.mu.Lock()
	r.nontrivial++
	r.fps[hex.EncodeToString(h[:8])] = struct{}{}
	r.mu.Unlock()
}

// Class counts a label for the distribution histogram.
func (r *Recorder) Class(label string) { r.mu.Lock(); r.classes[label]++; r.mu.Unlock() }

// Known counts an occurrence of a known finding.
func (r *Recorder) Known(key string) { r.mu.Lock(); r.known[key]++; r.mu.Unlock() }

// Extra stores an additional coverage key.
func (r *Recorder) Extra(k string, v interface{}) { r.mu.Lock(); r.extra[k] = v; r.mu.Unlock() }

// AddExtra adds n to a numeric extra key.
func (r *Recorder) AddExtra(k string, n int) {
	r.mu.Lock()
	if v, ok := r.extra[k].(int); ok {
		r.extra[k] = v + n
	} else {
		r.extra[k] = n
	}
	r.mu.Unlock()
}

// Sample keeps up to a few cases per class key for the evidence file.
func (r *Recorder) Sample(classKey string, c interface{}) {
	r.mu.Lock()
	defer r.mu.Unlock()
	if len(r.samples) >= 6 || r.sampleKeys[classKey] {
		return
	}
	r.sampleKeys[classKey] = true
	r.samples = append(r.samples, c)
}

type dump struct {
	Prop        string                 `json:"prop"`
	Rule        string                 `json:"rule"`
	Assumptions []string               `json:"assumptions"`
	Exhaustive  bool                   `json:"exhaustive"`
	Evals       int                    `json:"evals"`
	Skipped     int                    `json:"skipped"`
	NonTrivial  int                    `json:"nontrivial"`
	FPs         []string               `json:"fps"`
	Classes     map[string]int         `json:"classes"`
	Known       map[string]int         `json:"known"`
	Samples     []interface{}          `json:"samples"`
	Extra       map[string]interface{} `json:"extra"`
}

// DumpAll writes one evidence shard file per recorder into OutDir.
func DumpAll() {
	if OutDir == "" {
		return
	}
	recMu.Lock()
	defer recMu.Unlock()
	for _, r := range recs {
		r.mu.Lock()
		d := dump{Prop: r.Prop, Rule: r.Rule, Assumptions: r.Assumptions, Exhaustive: r.Exhaustive, Evals: r.evals,
			Skipped: r.skipped, NonTrivial: r.nontrivial, Classes: r.classes, Known: r.known, Samples: r.samples, Extra: r.extra}
		for k := range r.fps {
			d.FPs = append(d.FPs, k)
		}
		sort.Strings(d.FPs)
		r.mu.Unlock()
		data, err := json.Marshal(d)
		if err != nil {
			fmt.Fprintf(os.Stderr, "HARNESS-ERROR: evidence marshal: %v\n", err)
			continue
		}
		_ = os.WriteFile(filepath.Join(OutDir, fmt.Sprintf("%s.evid.%d.json", r.Prop, Shard)), data, 0o644)
	}
}

// ---------------------------------------------------------------------------------------------
// violation side file

type violFile struct {
	Property  string      `json:"property"`
	Test      string      `json:"test"`
	Case      interface{} `json:"case"`
	Violation *Violation  `json:"violation"`
}

// writeViolation (over)writes the side file for this shard; the last write of a rapid run is the
// shrunk case.
func writeViolation(prop, test string, c interface{}, v *Violation) {
	if OutDir == "" {
		return
	}
	data, err := json.MarshalIndent(violFile{prop, test, c, v}, "", " ")
	if err != nil {
		fmt.Fprintf(os.Stderr, "HARNESS-ERROR: violation marshal: %v\n", err)
		return
	}
	_ = os.WriteFile(filepath.Join(OutDir, fmt.Sprintf("%s.viol.%d.json", prop, Shard)), data, 0o644)
}

// HarnessError reports a problem of the machinery itself (never a violation). The driver maps the
// marker to exit code 2.
func HarnessError(t testing.TB, format string, args ...interface{}) {
	msg := fmt.Sprintf(format, args...)
	fmt.Fprintf(os.Stderr, "HARNESS-ERROR: %s\n", msg)
	if OutDir != "" {
		f, err := os.OpenFile(filepath.Join(OutDir, fmt.Sprintf("harness-error.%d.txt", Shard)), os.O_APPEND|os.O_CREATE|os.O_WRONLY, 0o644)
		if err == nil {
			fmt.Fprintln(f, msg)
			f.Close()
		}
	}
	t.Fatalf("HARNESS-ERROR: %s", msg)
}

// ---------------------------------------------------------------------------------------------
// running a property

// Prop describes one executable property over serialisable cases of type C.
type Prop[C any] struct {
	ID   string
	Test string // name of the Go test (distinguishes several case types per property)
	// Gen draws a case. All randomness must come from t.
	Gen func(t *rapid.T) C
	// Run executes a case against the real code and returns every violation found.
	Run func(c C) []*Violation
}

// filter drops known findings (counting them) and returns the first unknown violation.
func filter(prop string, vs []*Violation) *Violation {
	var first *Violation
	for _, v := range vs {
		if v == nil {
			continue
		}
		if strings.HasPrefix(v.Key, "HARNESS-") {
			// a problem of the machinery: never a violation
			fmt.Fprintf(os.Stderr, "HARNESS-ERROR: %s\n", v)
			if OutDir != "" {
				f, err := os.OpenFile(filepath.Join(OutDir, fmt.Sprintf("harness-error.%d.txt", Shard)), os.O_APPEND|os.O_CREATE|os.O_WRONLY, 0o644)
				if err == nil {
					fmt.Fprintln(f, v.String())
					f.Close()
				}
			}
			panic("HARNESS-ERROR: " + v.String())
		}
		if IsKnown(prop, v.Key) {
			Rec(prop).Known(v.Key)
			continue
		}
		if first == nil {
			first = v
		}
	}
	return first
}

// replayMatches reports whether the replay file belongs to this test.
func replayTarget(path string) (prop, test string, raw json.RawMessage, err error) {
	data, err := os.ReadFile(path)
	if err != nil {
		return "", "", nil, err
	}
	var vf struct {
		Property string          `json:"property"`
		Test     string          `json:"test"`
		Case     json.RawMessage `json:"case"`
	}
	if err := json.Unmarshal(data, &vf); err != nil {
		return "", "", nil, err
	}
	return vf.Property, vf.Test, vf.Case, nil
}

// RunOne executes a single case outside rapid (replay / regression / enumeration). It returns
// the first violation that is not a known finding.
func (p Prop[C]) RunOne(c C) *Violation {
	Rec(p.ID).Eval()
	v := filter(p.ID, p.Run(c))
	if v != nil {
		writeViolation(p.ID, p.Test, c, v)
		if v.Fatal {
			fmt.Printf("VIOLATION-DETAIL property=%s %s\n", p.ID, v)
			DumpAll()
			os.Exit(1)
		}
	}
	return v
}

// Regress replays every saved case under regress/<ID>/ that belongs to this test. A failing
// regression case is a violation like any other.
func (p Prop[C]) Regress(t *testing.T) bool {
	files, _ := filepath.Glob(filepath.Join(Root, "regress", p.ID, "*.json"))
	sort.Strings(files)
	ok := true
	for _, f := range files {
		_, test, raw, err := replayTarget(f)
		if err != nil {
			HarnessError(t, "regress file %s: %v", f, err)
		}
		if test != p.Test {
			continue
		}
		if strings.Contains(","+os.Getenv("VERIF_GEN_EXCLUDE")+",", ",regress:"+strings.TrimSuffix(filepath.Base(f), ".json")+",") {
			continue // seed evaluation on a tree from which the fix this case guards was reverted
		}
		var c C
		if err := json.Unmarshal(raw, &c); err != nil {
			HarnessError(t, "regress file %s: %v", f, err)
		}
		Rec(p.ID).AddExtra("regress_cases_replayed", 1)
		if v := p.RunOne(c); v != nil {
			t.Errorf("VIOLATION-DETAIL property=%s regress=%s %s", p.ID, filepath.Base(f), v)
			ok = false
			break
		}
	}
	return ok
}

// Check is the standard entry: replay mode, or regressions followed by rapid generation.
func (p Prop[C]) Check(t *testing.T) {
	if ReplayArg != "" {
		_, test, raw, err := replayTarget(ReplayArg)
		if err != nil {
			HarnessError(t, "replay file: %v", err)
		}
		if test != p.Test {
			t.Skip("replay file belongs to another test")
		}
		var c C
		if err := json.Unmarshal(raw, &c); err != nil {
			HarnessError(t, "replay file: %v", err)
		}
		if v := p.RunOne(c); v != nil {
			t.Fatalf("VIOLATION-DETAIL property=%s %s", p.ID, v)
		}
		fmt.Printf("REPLAY-OK property=%s test=%s\n", p.ID, p.Test)
		return
	}
	if Shard == 0 {
		if !p.Regress(t) {
			return
		}
	}
	if p.Gen == nil {
		return
	}
	rapid.Check(t, func(rt *rapid.T) {
		c := p.Gen(rt)
		Rec(p.ID).Eval()
		v := filter(p.ID, p.Run(c))
		if v != nil {
			writeViolation(p.ID, p.Test, c, v)
			if v.Fatal {
				fmt.Printf("VIOLATION-DETAIL property=%s %s\n", p.ID, v)
				DumpAll()
				os.Exit(1)
			}
			rt.Fatalf("VIOLATION-DETAIL property=%s %s", p.ID, v)
		}
	})
}

// Main is called from TestMain.
func Main(m *testing.M) {
	// rapid replays testdata/rapid/** first; make sure nothing is there.
	_ = os.RemoveAll("testdata/rapid")
	code := m.Run()
	DumpAll()
	os.Exit(code)
}

// Hash returns a short stable hash of a string (for fingerprints and file names).
func Hash(s string) string {
	h := sha256.Sum256([]byte(s))
	return hex.EncodeToString(h[:6])
}

// Join is a tiny helper for fingerprints.
func Join(parts ...interface{}) string {
	var sb strings.Builder
	for i, p := range parts {
		if i > 0 {
			sb.WriteByte('|')
		}
		fmt.Fprint(&sb, p)
	}
	return sb.String()
}
