// Package cmsverify is an independent verifier for detached CMS SignedData (RFC 5652) as used by
// S/MIME multipart/signed. It parses the DER with encoding/asn1 RawValues only and shares no
// structure definitions with go-mail's internal/pkcs7.
package cmsverify

import (
	"bytes"
	"crypto"
	"crypto/ecdsa"
	"crypto/rsa"
	"crypto/sha256"
	"crypto/x509"
	"encoding/asn1"
	"fmt"
	"math/big"
)

var (
	oidSignedData    = asn1.ObjectIdentifier{1, 2, 840, 113549, 1, 7, 2}
	oidData          = asn1.ObjectIdentifier{1, 2, 840, 113549, 1, 7, 1}
	oidSHA256        = asn1.ObjectIdentifier{2, 16, 840, 1, 101, 3, 4, 2, 1}
	oidContentType   = asn1.ObjectIdentifier{1, 2, 840, 113549, 1, 9, 3}
	oidMessageDigest = asn1.ObjectIdentifier{1, 2, 840, 113549, 1, 9, 4}
	oidSigningTime   = asn1.ObjectIdentifier{1, 2, 840, 113549, 1, 9, 5}
)

// Result describes a verified SignedData.
type Result struct {
	Certificates   []*x509.Certificate
	Signer         *x509.Certificate
	MessageDigest  []byte
	KeyType        string // rsa | ecdsa
	HasSigningTime bool
}

func children(b []byte) ([]asn1.RawValue, error) {
	var out []asn1.RawValue
	for len(b) > 0 {
		var rv asn1.RawValue
		rest, err := asn1.Unmarshal(b, &rv)
		if err != nil {
			return nil, err
		}
		out = append(out, rv)
		b = rest
	}
	return out, nil
}

func oidOf(rv asn1.RawValue) (asn1.ObjectIdentifier, error) {
	var oid asn1.ObjectIdentifier
	if _, err := asn1.Unmarshal(rv.FullBytes, &oid); err != nil {
		return nil, err
	}
	return oid, nil
}

// algOID returns the algorithm OID of an AlgorithmIdentifier SEQUENCE.
func algOID(rv asn1.RawValue) (asn1.ObjectIdentifier, error) {
	kids, err := children(rv.Bytes)
	if err != nil || len(kids) == 0 {
		return nil, fmt.Errorf("bad AlgorithmIdentifier")
	}
	return oidOf(kids[0])
}

// Verify parses der as ContentInfo{SignedData}, checks its structure and verifies the single
// signer's signature over the signed attributes and the message-digest attribute against content.
func Verify(der []byte, content []byte) (*Result, error) {
	var ci asn1.RawValue
	rest, err := asn1.Unmarshal(der, &ci)
	if err != nil {
		return nil, fmt.Errorf("ContentInfo: %w", err)
	}
	if len(rest) != 0 {
		return nil, fmt.Errorf("%d trailing bytes after ContentInfo", len(rest))
	}
	if ci.Tag != asn1.TagSequence || !ci.IsCompound {
		return nil, fmt.Errorf("ContentInfo is not a SEQUENCE")
	}
	ck, err := children(ci.Bytes)
	if err != nil || len(ck) != 2 {
		return nil, fmt.Errorf("ContentInfo has %d elements (err %v)", len(ck), err)
	}
	if oid, err := oidOf(ck[0]); err != nil || !oid.Equal(oidSignedData) {
		return nil, fmt.Errorf("contentType is %v, expected signedData", oid)
	}
	if ck[1].Class != asn1.ClassContextSpecific || ck[1].Tag != 0 {
		return nil, fmt.Errorf("content is not [0] EXPLICIT")
	}
	var sd asn1.RawValue
	if rest, err := asn1.Unmarshal(ck[1].Bytes, &sd); err != nil || len(rest) != 0 || sd.Tag != asn1.TagSequence {
		return nil, fmt.Errorf("SignedData: %v", err)
	}
	sk, err := children(sd.Bytes)
	if err != nil || len(sk) < 4 {
		return nil, fmt.Errorf("SignedData has %d elements (err %v)", len(sk), err)
	}
	// version
	var version int
	if _, err := asn1.Unmarshal(sk[0].FullBytes, &version); err != nil || version != 1 {
		return nil, fmt.Errorf("SignedData version %d (err %v), expected 1", version, err)
	}
	// digestAlgorithms
	if sk[1].Tag != asn1.TagSet {
		return nil, fmt.Errorf("digestAlgorithms is not a SET")
	}
	das, err := children(sk[1].Bytes)
	if err != nil {
		return nil, err
	}
	hasSHA256 := false
	for _, da := range das {
		if oid, err := algOID(da); err == nil && oid.Equal(oidSHA256) {
			hasSHA256 = true
		}
	}
	if !hasSHA256 {
		return nil, fmt.Errorf("digestAlgorithms does not list sha-256")
	}
	// encapContentInfo: detached
	ek, err := children(sk[2].Bytes)
	if err != nil || len(ek) == 0 {
		return nil, fmt.Errorf("encapContentInfo: %v", err)
	}
	if oid, err := oidOf(ek[0]); err != nil || !oid.Equal(oidData) {
		return nil, fmt.Errorf("eContentType is %v, expected id-data", oid)
	}
	if len(ek) != 1 {
		return nil, fmt.Errorf("signature is not detached: eContent present")
	}
	res := &Result{}
	idx := 3
	if sk[idx].Class == asn1.ClassContextSpecific && sk[idx].Tag == 0 {
		certs, err := children(sk[idx].Bytes)
		if err != nil {
			return nil, fmt.Errorf("certificates: %w", err)
		}
		for _, c := range certs {
			cert, err := x509.ParseCertificate(c.FullBytes)
			if err != nil {
				return nil, fmt.Errorf("certificate: %w", err)
			}
			res.Certificates = append(res.Certificates, cert)
		}
		idx++
	}
	if idx < len(sk) && sk[idx].Class == asn1.ClassContextSpecific && sk[idx].Tag == 1 {
		idx++ // crls
	}
	if idx >= len(sk) || sk[idx].Tag != asn1.TagSet {
		return nil, fmt.Errorf("signerInfos missing")
	}
	sis, err := children(sk[idx].Bytes)
	if err != nil || len(sis) != 1 {
		return nil, fmt.Errorf("%d SignerInfos (err %v), expected exactly one", len(sis), err)
	}
	ik, err := children(sis[0].Bytes)
	if err != nil || len(ik) < 5 {
		return nil, fmt.Errorf("SignerInfo has %d elements (err %v)", len(ik), err)
	}
	// sid: IssuerAndSerialNumber
	sid, err := children(ik[1].Bytes)
	if err != nil || len(sid) != 2 {
		return nil, fmt.Errorf("sid is not IssuerAndSerialNumber")
	}
	serial := new(big.Int)
	if _, err := asn1.Unmarshal(sid[1].FullBytes, &serial); err != nil {
		return nil, fmt.Errorf("serial: %w", err)
	}
	for _, c := range res.Certificates {
		if bytes.Equal(c.RawIssuer, sid[0].FullBytes) && c.SerialNumber.Cmp(serial) == 0 {
			res.Signer = c
		}
	}
	if res.Signer == nil {
		return nil, fmt.Errorf("no carried certificate matches the signer's issuer and serial number")
	}
	if oid, err := algOID(ik[2]); err != nil || !oid.Equal(oidSHA256) {
		return nil, fmt.Errorf("SignerInfo digestAlgorithm is %v, expected sha-256", oid)
	}
	sa := ik[3]
	if sa.Class != asn1.ClassContextSpecific || sa.Tag != 0 {
		return nil, fmt.Errorf("signedAttrs missing")
	}
	attrs, err := children(sa.Bytes)
	if err != nil {
		return nil, fmt.Errorf("signedAttrs: %w", err)
	}
	// DER SET OF: elements in ascending order of their encodings
	for i := 1; i < len(attrs); i++ {
		if bytes.Compare(attrs[i-1].FullBytes, attrs[i].FullBytes) > 0 {
			return nil, fmt.Errorf("signedAttrs are not in DER SET OF order")
		}
	}
	nCT, nMD := 0, 0
	for _, a := range attrs {
		ak, err := children(a.Bytes)
		if err != nil || len(ak) != 2 {
			return nil, fmt.Errorf("malformed attribute")
		}
		oid, err := oidOf(ak[0])
		if err != nil {
			return nil, err
		}
		vals, err := children(ak[1].Bytes)
		if err != nil || len(vals) != 1 {
			return nil, fmt.Errorf("attribute %v has %d values", oid, len(vals))
		}
		switch {
		case oid.Equal(oidContentType):
			nCT++
			if v, err := oidOf(vals[0]); err != nil || !v.Equal(oidData) {
				return nil, fmt.Errorf("content-type attribute is %v, expected id-data", v)
			}
		case oid.Equal(oidMessageDigest):
			nMD++
			var md []byte
			if _, err := asn1.Unmarshal(vals[0].FullBytes, &md); err != nil {
				return nil, fmt.Errorf("message-digest: %w", err)
			}
			res.MessageDigest = md
		case oid.Equal(oidSigningTime):
			res.HasSigningTime = true
		}
	}
	if nCT != 1 || nMD != 1 {
		return nil, fmt.Errorf("signedAttrs carry %d content-type and %d message-digest attributes", nCT, nMD)
	}
	want := sha256.Sum256(content)
	if !bytes.Equal(res.MessageDigest, want[:]) {
		return res, fmt.Errorf("message-digest attribute %x does not equal the SHA-256 %x of the %d-byte signed entity as emitted", res.MessageDigest, want[:], len(content))
	}
	// signature over the DER encoding of the attributes as SET OF (tag 0x31)
	toSign := append([]byte{}, sa.FullBytes...)
	toSign[0] = 0x31
	h := sha256.Sum256(toSign)
	var sig []byte
	if _, err := asn1.Unmarshal(ik[5-0].FullBytes, &sig); err != nil {
		return nil, fmt.Errorf("signature: %w", err)
	}
	switch pub := res.Signer.PublicKey.(type) {
	case *rsa.PublicKey:
		res.KeyType = "rsa"
		if err := rsa.VerifyPKCS1v15(pub, crypto.SHA256, h[:], sig); err != nil {
			return res, fmt.Errorf("RSA signature does not verify: %w", err)
		}
	case *ecdsa.PublicKey:
		res.KeyType = "ecdsa"
		if !ecdsa.VerifyASN1(pub, h[:], sig) {
			return res, fmt.Errorf("ECDSA signature does not verify")
		}
	default:
		return nil, fmt.Errorf("unsupported public key type %T", pub)
	}
	return res, nil
}
