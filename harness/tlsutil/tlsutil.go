// Package tlsutil creates the throw-away PKI the TLS-related checks need: a CA, leaf
// certificates for chosen names/IPs, a leaf with a wrong name and a leaf of an untrusted CA.
package tlsutil

import (
	"crypto/ecdsa"
	"crypto/elliptic"
	"crypto/rand"
	"crypto/rsa"
	"crypto/tls"
	"crypto/x509"
	"crypto/x509/pkix"
	"encoding/pem"
	"math/big"
	"net"
	"time"
)

// CA is a certificate authority.
type CA struct {
	Cert *x509.Certificate
	Key  *ecdsa.PrivateKey
	DER  []byte
}

var serial int64 = 1000

func nextSerial() *big.Int { serial++; return big.NewInt(serial) }

// NewCA creates a self-signed ECDSA P-256 CA.
func NewCA(cn string) (*CA, error) { return newCACurve(cn, "p256") }

func curveOf(name string) elliptic.Curve {
	switch name {
	case "p384":
		return elliptic.P384()
	case "p521":
		return elliptic.P521()
	}
	return elliptic.P256()
}

func newCACurve(cn, curve string) (*CA, error) {
	key, err := ecdsa.GenerateKey(curveOf(curve), rand.Reader)
	if err != nil {
		return nil, err
	}
	tpl := &x509.Certificate{
		SerialNumber: nextSerial(), Subject: pkix.Name{CommonName: cn, Organization: []string{"verif"}},
		NotBefore: time.Now().Add(-time.Hour), NotAfter: time.Now().Add(240 * time.Hour),
		IsCA: true, BasicConstraintsValid: true, KeyUsage: x509.KeyUsageCertSign | x509.KeyUsageDigitalSignature,
	}
	der, err := x509.CreateCertificate(rand.Reader, tpl, tpl, &key.PublicKey, key)
	if err != nil {
		return nil, err
	}
	cert, err := x509.ParseCertificate(der)
	if err != nil {
		return nil, err
	}
	return &CA{Cert: cert, Key: key, DER: der}, nil
}

// Pool returns a pool holding only this CA.
func (ca *CA) Pool() *x509.CertPool {
	p := x509.NewCertPool()
	p.AddCert(ca.Cert)
	return p
}

// PEM returns the CA certificate in PEM form.
func (ca *CA) PEM() []byte {
	return pem.EncodeToMemory(&pem.Block{Type: "CERTIFICATE", Bytes: ca.DER})
}

// Leaf issues a server certificate for the given DNS names and IPs.
func (ca *CA) Leaf(names []string, ips []string) (tls.Certificate, error) {
	key, err := ecdsa.GenerateKey(elliptic.P256(), rand.Reader)
	if err != nil {
		return tls.Certificate{}, err
	}
	tpl := &x509.Certificate{
		SerialNumber: nextSerial(), Subject: pkix.Name{CommonName: "leaf"},
		NotBefore: time.Now().Add(-time.Hour), NotAfter: time.Now().Add(240 * time.Hour),
		KeyUsage: x509.KeyUsageDigitalSignature, ExtKeyUsage: []x509.ExtKeyUsage{x509.ExtKeyUsageServerAuth},
		DNSNames: names,
	}
	for _, ip := range ips {
		tpl.IPAddresses = append(tpl.IPAddresses, net.ParseIP(ip))
	}
	der, err := x509.CreateCertificate(rand.Reader, tpl, ca.Cert, &key.PublicKey, ca.Key)
	if err != nil {
		return tls.Certificate{}, err
	}
	return tls.Certificate{Certificate: [][]byte{der}, PrivateKey: key}, nil
}

// SigningChain creates material for S/MIME: root CA -> optional intermediate -> leaf with an RSA
// or ECDSA key. It returns the leaf key, the leaf certificate, the intermediate (nil if none) and
// the root.
type SigningChain struct {
	Key          interface{}
	Leaf         *x509.Certificate
	Intermediate *x509.Certificate
	Root         *x509.Certificate
}

// NewSigningChain creates a chain. keyType is "rsa" or "ecdsa".
func NewSigningChain(keyType string, withIntermediate bool) (*SigningChain, error) {
	return NewSigningChainIssuer(keyType, withIntermediate, "p256")
}

// NewSigningChainIssuer lets the caller choose the curve of the issuing CA ("p256", "p384", "p521"),
// which determines the hash of the signature ON the signer certificate (SHA-256/384/512).
func NewSigningChainIssuer(keyType string, withIntermediate bool, issuerCurve string) (*SigningChain, error) {
	return NewSigningChainSerial(keyType, withIntermediate, issuerCurve, false)
}

// NewSigningChainSerial: with sameSerial the signer certificate gets the SAME serial number as the
// intermediate certificate that issued it (serial numbers are unique per issuer only; small PKIs that
// count from 1 at every CA produce exactly this).
func NewSigningChainSerial(keyType string, withIntermediate bool, issuerCurve string, sameSerial bool) (*SigningChain, error) {
	root, err := newCACurve("verif smime root", issuerCurve)
	if err != nil {
		return nil, err
	}
	issuerCert, issuerKey := root.Cert, root.Key
	sc := &SigningChain{Root: root.Cert}
	if withIntermediate {
		ikey, err := ecdsa.GenerateKey(curveOf(issuerCurve), rand.Reader)
		if err != nil {
			return nil, err
		}
		tpl := &x509.Certificate{
			SerialNumber: nextSerial(), Subject: pkix.Name{CommonName: "verif smime intermediate"},
			NotBefore: time.Now().Add(-time.Hour), NotAfter: time.Now().Add(240 * time.Hour),
			IsCA: true, BasicConstraintsValid: true, KeyUsage: x509.KeyUsageCertSign | x509.KeyUsageDigitalSignature,
		}
		der, err := x509.CreateCertificate(rand.Reader, tpl, root.Cert, &ikey.PublicKey, root.Key)
		if err != nil {
			return nil, err
		}
		icert, err := x509.ParseCertificate(der)
		if err != nil {
			return nil, err
		}
		sc.Intermediate = icert
		issuerCert, issuerKey = icert, ikey
	}
	var pub interface{}
	switch keyType {
	case "rsa":
		k, err := rsa.GenerateKey(rand.Reader, 2048)
		if err != nil {
			return nil, err
		}
		sc.Key, pub = k, &k.PublicKey
	default:
		k, err := ecdsa.GenerateKey(elliptic.P256(), rand.Reader)
		if err != nil {
			return nil, err
		}
		sc.Key, pub = k, &k.PublicKey
	}
	leafSerial := nextSerial()
	if sameSerial && sc.Intermediate != nil {
		leafSerial = sc.Intermediate.SerialNumber
	}
	tpl := &x509.Certificate{
		SerialNumber: leafSerial, Subject: pkix.Name{CommonName: "verif signer", Organization: []string{"verif"}},
		NotBefore: time.Now().Add(-time.Hour), NotAfter: time.Now().Add(240 * time.Hour),
		KeyUsage: x509.KeyUsageDigitalSignature, ExtKeyUsage: []x509.ExtKeyUsage{x509.ExtKeyUsageEmailProtection},
		EmailAddresses: []string{"sender@verif.example"},
	}
	der, err := x509.CreateCertificate(rand.Reader, tpl, issuerCert, pub, issuerKey)
	if err != nil {
		return nil, err
	}
	leaf, err := x509.ParseCertificate(der)
	if err != nil {
		return nil, err
	}
	sc.Leaf = leaf
	return sc, nil
}
