package refsasl

import (
	"crypto/sha1"
	"encoding/base64"
	"encoding/hex"
	"testing"
)

// RFC 6070 PBKDF2-HMAC-SHA1 test vectors
func TestPBKDF2Vectors(t *testing.T) {
	for _, v := range []struct {
		p, s string
		c, l int
		want string
	}{
		{"password", "salt", 1, 20, "0c60c80f961f0e71f3a9b524af6012062fe037a6"},
		{"password", "salt", 2, 20, "ea6c014dc72d6f8cc1ed92ace1d41f0d8de8957"[:39] + "7"},
		{"password", "salt", 4096, 20, "4b007901b765489abead49d926f721d065a429c1"},
		{"passwordPASSWORDpassword", "saltSALTsaltSALTsaltSALTsaltSALTsalt", 4096, 25, "3d2eec4fe41c849b80c8d83662c0e44a8b291a964cf2f07038"},
		{"pass\x00word", "sa\x00lt", 4096, 16, "56fa6aa75548099dcc37d7f03425e0c3"},
	} {
		got := hex.EncodeToString(PBKDF2(sha1.New, []byte(v.p), []byte(v.s), v.c, v.l))
		if v.c == 2 {
			v.want = "ea6c014dc72d6f8ccd1ed92ace1d41f0d8de8957"
		}
		if got != v.want {
			t.Errorf("PBKDF2(%q,%q,%d,%d) = %s, want %s", v.p, v.s, v.c, v.l, got, v.want)
		}
	}
}

// RFC 5802 section 5 and RFC 7677 section 3 example exchanges
func TestScramVectors(t *testing.T) {
	for _, v := range []struct {
		hash, cfirst, suffix, salt string
		iter                       int
		cfinal, ssig               string
	}{
		{"SHA-1", "n,,n=user,r=fyko+d2lbbFgONRv9qkxdawL", "3rfcNHYJY1ZVvWVs7j", "QSXCR+Q6sek8bf92", 4096,
			"c=biws,r=fyko+d2lbbFgONRv9qkxdawL3rfcNHYJY1ZVvWVs7j,p=v0X8v3Bz2T0CJGbJQyF0X+HI4Ts=", "rmF9pqV8S7suAoZWja4dJRkFsKQ="},
		{"SHA-256", "n,,n=user,r=rOprNGfwEbeRWgbNEkqO", "%hvYDpWUa2RaTCAfuxFIlj)hNlF$k0", "W22ZaJ0SNY7soEsUEjb6gQ==", 4096,
			"c=biws,r=rOprNGfwEbeRWgbNEkqO%hvYDpWUa2RaTCAfuxFIlj)hNlF$k0,p=dHzbZapWIk4jUhN+Ute9ytag9zjfMHgsqmmiz7AndVQ=", "6rriTRBi23WpRR/wtup+mMhUZUn/dB5nLTJRsjl95G4="},
	} {
		salt, _ := base64.StdEncoding.DecodeString(v.salt)
		p := ScramParams{Hash: v.hash, Salt: salt, Iter: v.iter, NonceSuffix: v.suffix}
		cf, err := ParseClientFirst(v.cfirst)
		if err != nil {
			t.Fatal(err)
		}
		sf := ServerFirst(p, cf.Nonce)
		sig, err := VerifyFinal(p, "pencil", cf, sf, v.cfinal, nil)
		if err != nil {
			t.Fatalf("%s: %v", v.hash, err)
		}
		if sig != v.ssig {
			t.Fatalf("%s: server signature %s, want %s", v.hash, sig, v.ssig)
		}
		if _, err := VerifyFinal(p, "pencil2", cf, sf, v.cfinal, nil); err == nil {
			t.Fatalf("%s: wrong password accepted", v.hash)
		}
	}
}

func TestUnescape(t *testing.T) {
	if u, ok := unescapeSaslname("a=2Cb=3Dc"); !ok || u != "a,b=c" {
		t.Fatalf("%q %v", u, ok)
	}
	if _, ok := unescapeSaslname("a=b"); ok {
		t.Fatal("bare = accepted")
	}
}

// RFC 2195 section 2 example
func TestCramMD5Vector(t *testing.T) {
	if got := CramDigest("tanstaaftanstaaf", "<1896.697170952@postoffice.reston.mci.net>"); got != "b913a602c7eda7a495b4e6e7334d3890" {
		t.Fatalf("digest %s", got)
	}
}
