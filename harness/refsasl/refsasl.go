// Package refsasl holds server-side reference implementations of the SASL mechanisms go-mail
// speaks, written from the RFCs (4616, 2195, 5802, 7677, 9266, draft-murchison-sasl-login, Google's
// XOAUTH2 description) with an own PBKDF2, so that they can judge the client independently.
package refsasl

import (
	"bytes"
	"crypto/hmac"
	"crypto/md5"
	"crypto/sha1"
	"crypto/sha256"
	"crypto/subtle"
	"crypto/tls"
	"encoding/base64"
	"encoding/binary"
	"encoding/hex"
	"fmt"
	"hash"
	"strconv"
	"strings"
	"sync"

	"verif/harness/refsmtp"
)

// Account is the one account a reference server knows.
type Account struct {
	User string
	Pass string
}

// Result records what a verifier concluded.
type Result struct {
	mu        sync.Mutex
	Mech      string
	Accepted  bool
	Reason    string   // why it was rejected / what was malformed
	Malformed bool     // the client message violated the mechanism's syntax
	Nonces    []string // SCRAM client nonces seen (one per attempt)
	Attempts  int
	CBType    string // channel-binding type announced by the client
}

func (r *Result) set(mech string, ok bool, malformed bool, reason string) {
	r.mu.Lock()
	defer r.mu.Unlock()
	r.Mech, r.Accepted, r.Malformed, r.Reason = mech, ok, malformed, reason
	r.Attempts++
}

func final(ok bool) string {
	if ok {
		return "235 2.7.0 authentication successful"
	}
	return "535 5.7.8 authentication credentials invalid"
}

func eq(a, b string) bool { return subtle.ConstantTimeCompare([]byte(a), []byte(b)) == 1 }

// Plain implements RFC 4616: message = [authzid] NUL authcid NUL passwd.
func Plain(acc Account, res *Result) refsmtp.AuthHandler {
	return func(mech string, initial []byte, io *refsmtp.AuthIO, _ *tls.ConnectionState) string {
		msg := initial
		if msg == nil {
			var err error
			if msg, err = io.Challenge(nil); err != nil {
				res.set("PLAIN", false, false, "aborted: "+err.Error())
				return "501 5.5.2 cancelled"
			}
		}
		parts := bytes.Split(msg, []byte{0})
		if len(parts) != 3 {
			res.set("PLAIN", false, true, fmt.Sprintf("message has %d NUL-separated parts, RFC 4616 requires 3", len(parts)))
			return "501 5.5.2 malformed PLAIN message"
		}
		authzid, authcid, passwd := string(parts[0]), string(parts[1]), string(parts[2])
		if authcid == "" || passwd == "" {
			// RFC 4616 wants 1*SAFE for both; an empty credential is the caller's own (wrong)
			// credential rather than an encoding mistake of the client, so it is simply rejected
			res.set("PLAIN", false, false, "empty authcid or passwd")
			return final(false)
		}
		if authzid != "" && authzid != authcid {
			res.set("PLAIN", false, false, "authzid "+strconv.Quote(authzid)+" differs from authcid")
			return final(false)
		}
		ok := eq(authcid, acc.User) && eq(passwd, acc.Pass)
		res.set("PLAIN", ok, false, "credentials compared")
		return final(ok)
	}
}

// Login implements the LOGIN mechanism (draft-murchison-sasl-login).
func Login(acc Account, res *Result) refsmtp.AuthHandler {
	return LoginPrompts(acc, res, "Username:", "Password:")
}

// LoginPrompts is Login with the server's own wording of the two prompts: the draft fixes the ORDER
// of the two answers, not the text ("User Name", "Username:" twice, localised prompts all occur).
func LoginPrompts(acc Account, res *Result, userPrompt, passPrompt string) refsmtp.AuthHandler {
	return func(mech string, initial []byte, io *refsmtp.AuthIO, _ *tls.ConnectionState) string {
		user := initial
		var err error
		if user == nil {
			if user, err = io.Challenge([]byte(userPrompt)); err != nil {
				res.set("LOGIN", false, false, "aborted: "+err.Error())
				return "501 5.5.2 cancelled"
			}
		}
		pass, err := io.Challenge([]byte(passPrompt))
		if err != nil {
			res.set("LOGIN", false, false, "aborted: "+err.Error())
			return "501 5.5.2 cancelled"
		}
		ok := eq(string(user), acc.User) && eq(string(pass), acc.Pass)
		res.set("LOGIN", ok, false, "credentials compared")
		return final(ok)
	}
}

// CramMD5 implements RFC 2195. The response is split at the LAST space (user names may contain blanks).
func CramMD5(acc Account, challenge string, res *Result) refsmtp.AuthHandler {
	return func(mech string, initial []byte, io *refsmtp.AuthIO, _ *tls.ConnectionState) string {
		if initial != nil {
			res.set("CRAM-MD5", false, true, "CRAM-MD5 has no initial response")
			return "501 5.5.2 no initial response allowed"
		}
		resp, err := io.Challenge([]byte(challenge))
		if err != nil {
			res.set("CRAM-MD5", false, false, "aborted: "+err.Error())
			return "501 5.5.2 cancelled"
		}
		i := bytes.LastIndexByte(resp, ' ')
		if i < 0 {
			res.set("CRAM-MD5", false, true, "response without blank")
			return "501 5.5.2 malformed response"
		}
		user, digest := string(resp[:i]), string(resp[i+1:])
		if len(digest) != 32 || strings.ToLower(digest) != digest {
			res.set("CRAM-MD5", false, true, "digest is not 32 lower-case hex digits: "+strconv.Quote(digest))
			return "501 5.5.2 malformed digest"
		}
		if _, err := hex.DecodeString(digest); err != nil {
			res.set("CRAM-MD5", false, true, "digest is not hex")
			return "501 5.5.2 malformed digest"
		}
		want := CramDigest(acc.Pass, challenge)
		ok := eq(user, acc.User) && eq(digest, want)
		res.set("CRAM-MD5", ok, false, "credentials compared")
		return final(ok)
	}
}

// CramDigest is the RFC 2195 digest: lower-case hex of HMAC-MD5(secret, challenge).
func CramDigest(secret, challenge string) string {
	m := hmac.New(md5.New, []byte(secret))
	m.Write([]byte(challenge))
	return hex.EncodeToString(m.Sum(nil))
}

// XOAuth2 implements Google's XOAUTH2 format: "user=" user ^A "auth=Bearer " token ^A ^A.
func XOAuth2(acc Account, res *Result) refsmtp.AuthHandler {
	return func(mech string, initial []byte, io *refsmtp.AuthIO, _ *tls.ConnectionState) string {
		msg := initial
		if msg == nil {
			var err error
			if msg, err = io.Challenge(nil); err != nil {
				res.set("XOAUTH2", false, false, "aborted")
				return "501 5.5.2 cancelled"
			}
		}
		s := string(msg)
		if !strings.HasSuffix(s, "\x01\x01") {
			res.set("XOAUTH2", false, true, "message does not end in ^A^A")
			return "501 5.5.2 malformed XOAUTH2 message"
		}
		fields := strings.Split(strings.TrimSuffix(s, "\x01\x01"), "\x01")
		if len(fields) != 2 || !strings.HasPrefix(fields[0], "user=") || !strings.HasPrefix(fields[1], "auth=Bearer ") {
			res.set("XOAUTH2", false, true, fmt.Sprintf("message has %d ^A-separated fields or wrong prefixes", len(fields)))
			return "501 5.5.2 malformed XOAUTH2 message"
		}
		ok := eq(strings.TrimPrefix(fields[0], "user="), acc.User) && eq(strings.TrimPrefix(fields[1], "auth=Bearer "), acc.Pass)
		res.set("XOAUTH2", ok, false, "credentials compared")
		if !ok {
			// real servers answer with a 334 carrying a JSON error and expect an empty response
			if _, err := io.Challenge([]byte(`{"status":"401","schemes":"bearer","scope":"https://mail.google.com/"}`)); err != nil {
				return "501 5.5.2 cancelled"
			}
		}
		return final(ok)
	}
}

// Mux dispatches on the mechanism name.
func Mux(h map[string]refsmtp.AuthHandler) refsmtp.AuthHandler {
	return func(mech string, initial []byte, io *refsmtp.AuthIO, st *tls.ConnectionState) string {
		if f, ok := h[mech]; ok {
			return f(mech, initial, io, st)
		}
		return "504 5.5.4 mechanism not supported"
	}
}

// ---------------------------------------------------------------------------------------------
// PBKDF2 (RFC 8018), own implementation

// PBKDF2 derives keyLen bytes.
func PBKDF2(h func() hash.Hash, password, salt []byte, iter, keyLen int) []byte {
	prf := hmac.New(h, password)
	hLen := prf.Size()
	var out []byte
	for block := uint32(1); len(out) < keyLen; block++ {
		prf.Reset()
		prf.Write(salt)
		var ctr [4]byte
		binary.BigEndian.PutUint32(ctr[:], block)
		prf.Write(ctr[:])
		u := prf.Sum(nil)
		t := make([]byte, hLen)
		copy(t, u)
		for i := 1; i < iter; i++ {
			prf.Reset()
			prf.Write(u)
			u = prf.Sum(nil)
			for k := range t {
				t[k] ^= u[k]
			}
		}
		out = append(out, t...)
	}
	return out[:keyLen]
}

// ---------------------------------------------------------------------------------------------
// SCRAM (RFC 5802 / 7677 / 9266)

// ScramParams configures the server side of one exchange.
type ScramParams struct {
	Hash        string // "SHA-1" | "SHA-256"
	Plus        bool
	Salt        []byte
	Iter        int
	NonceSuffix string // appended to the client nonce
	Ext         string // extensions appended to server-first (e.g. ",x=y"); "" = none
}

// HashFunc returns the hash constructor.
func (p ScramParams) HashFunc() func() hash.Hash {
	if p.Hash == "SHA-1" {
		return sha1.New
	}
	return sha256.New
}

// MechName returns the SASL mechanism name.
func (p ScramParams) MechName() string {
	n := "SCRAM-" + p.Hash
	if p.Plus {
		n += "-PLUS"
	}
	return n
}

// ClientFirst is a parsed client-first-message.
type ClientFirst struct {
	GS2Header string // e.g. "n,," or "p=tls-unique,,"
	CBFlag    string // n | y | p
	CBName    string
	AuthzID   string
	Bare      string // client-first-message-bare
	User      string // un-escaped
	Nonce     string
}

func unescapeSaslname(s string) (string, bool) {
	var sb strings.Builder
	for i := 0; i < len(s); i++ {
		switch s[i] {
		case ',':
			return "", false
		case '=':
			if strings.HasPrefix(s[i:], "=2C") {
				sb.WriteByte(',')
				i += 2
			} else if strings.HasPrefix(s[i:], "=3D") {
				sb.WriteByte('=')
				i += 2
			} else {
				return "", false
			}
		default:
			sb.WriteByte(s[i])
		}
	}
	return sb.String(), true
}

// ParseClientFirst parses "gs2-header client-first-message-bare".
func ParseClientFirst(msg string) (*ClientFirst, error) {
	cf := &ClientFirst{}
	parts := strings.SplitN(msg, ",", 3)
	if len(parts) != 3 {
		return nil, fmt.Errorf("client-first has fewer than 3 comma separated parts")
	}
	switch {
	case parts[0] == "n" || parts[0] == "y":
		cf.CBFlag = parts[0]
	case strings.HasPrefix(parts[0], "p="):
		cf.CBFlag, cf.CBName = "p", parts[0][2:]
		if cf.CBName == "" {
			return nil, fmt.Errorf("empty channel binding name")
		}
	default:
		return nil, fmt.Errorf("bad gs2-cbind-flag %q", parts[0])
	}
	if parts[1] != "" {
		if !strings.HasPrefix(parts[1], "a=") {
			return nil, fmt.Errorf("bad authzid field %q", parts[1])
		}
		cf.AuthzID = parts[1][2:]
	}
	cf.GS2Header = parts[0] + "," + parts[1] + ","
	cf.Bare = parts[2]
	attrs := strings.Split(cf.Bare, ",")
	if len(attrs) < 2 {
		return nil, fmt.Errorf("client-first-bare has %d attributes", len(attrs))
	}
	if strings.HasPrefix(attrs[0], "m=") {
		return nil, fmt.Errorf("mandatory extension not supported")
	}
	if !strings.HasPrefix(attrs[0], "n=") {
		return nil, fmt.Errorf("first attribute is %q, expected n=", attrs[0])
	}
	u, ok := unescapeSaslname(attrs[0][2:])
	if !ok {
		return nil, fmt.Errorf("user name %q is not a valid saslname (bare '=' or ',')", attrs[0][2:])
	}
	if u == "" {
		return nil, fmt.Errorf("empty user name")
	}
	cf.User = u
	if !strings.HasPrefix(attrs[1], "r=") {
		return nil, fmt.Errorf("second attribute is %q, expected r=", attrs[1])
	}
	cf.Nonce = attrs[1][2:]
	if cf.Nonce == "" {
		return nil, fmt.Errorf("empty nonce")
	}
	for i := 0; i < len(cf.Nonce); i++ {
		if cf.Nonce[i] < 0x21 || cf.Nonce[i] > 0x7e || cf.Nonce[i] == ',' {
			return nil, fmt.Errorf("nonce has non-printable or ',' characters")
		}
	}
	return cf, nil
}

// Keys derives SaltedPassword, ClientKey, StoredKey, ServerKey.
func Keys(p ScramParams, password string) (salted, clientKey, storedKey, serverKey []byte) {
	h := p.HashFunc()
	salted = PBKDF2(h, []byte(password), p.Salt, p.Iter, h().Size())
	mac := func(key []byte, msg string) []byte {
		m := hmac.New(h, key)
		m.Write([]byte(msg))
		return m.Sum(nil)
	}
	clientKey = mac(salted, "Client Key")
	hh := h()
	hh.Write(clientKey)
	storedKey = hh.Sum(nil)
	serverKey = mac(salted, "Server Key")
	return
}

// ServerFirst builds the server-first-message for a client nonce.
func ServerFirst(p ScramParams, clientNonce string) string {
	return "r=" + clientNonce + p.NonceSuffix + ",s=" + base64.StdEncoding.EncodeToString(p.Salt) + ",i=" + strconv.Itoa(p.Iter) + p.Ext
}

// VerifyFinal checks a client-final-message and returns the server signature (base64) on success.
// cbData is the channel-binding data of the server's side of the connection (nil if none).
func VerifyFinal(p ScramParams, password string, cf *ClientFirst, serverFirst, clientFinal string, cbData []byte) (serverSig string, err error) {
	i := strings.LastIndex(clientFinal, ",p=")
	if i < 0 {
		return "", fmt.Errorf("client-final without proof")
	}
	withoutProof, proofB64 := clientFinal[:i], clientFinal[i+3:]
	attrs := strings.Split(withoutProof, ",")
	if len(attrs) < 2 || !strings.HasPrefix(attrs[0], "c=") || !strings.HasPrefix(attrs[1], "r=") {
		return "", fmt.Errorf("client-final-without-proof malformed: %q", withoutProof)
	}
	cb, derr := base64.StdEncoding.DecodeString(attrs[0][2:])
	if derr != nil {
		return "", fmt.Errorf("c= is not base64")
	}
	wantCB := append([]byte(cf.GS2Header), cbData...)
	if cf.CBFlag != "p" {
		wantCB = []byte(cf.GS2Header)
	}
	if !bytes.Equal(cb, wantCB) {
		return "", fmt.Errorf("channel binding mismatch: c= decodes to %q, expected gs2-header %q + %d bytes of binding data", clipBytes(cb), cf.GS2Header, len(wantCB)-len(cf.GS2Header))
	}
	if attrs[1][2:] != cf.Nonce+p.NonceSuffix {
		return "", fmt.Errorf("nonce in client-final %q is not the combined nonce", attrs[1][2:])
	}
	proof, derr := base64.StdEncoding.DecodeString(proofB64)
	if derr != nil {
		return "", fmt.Errorf("proof is not base64")
	}
	h := p.HashFunc()
	_, _, storedKey, serverKey := Keys(p, password)
	authMessage := cf.Bare + "," + serverFirst + "," + withoutProof
	m := hmac.New(h, storedKey)
	m.Write([]byte(authMessage))
	clientSig := m.Sum(nil)
	if len(proof) != len(clientSig) {
		return "", fmt.Errorf("proof has %d bytes, expected %d", len(proof), len(clientSig))
	}
	ck := make([]byte, len(proof))
	for k := range proof {
		ck[k] = proof[k] ^ clientSig[k]
	}
	hh := h()
	hh.Write(ck)
	if subtle.ConstantTimeCompare(hh.Sum(nil), storedKey) != 1 {
		return "", fmt.Errorf("client proof does not verify (wrong password?)")
	}
	m2 := hmac.New(h, serverKey)
	m2.Write([]byte(authMessage))
	return base64.StdEncoding.EncodeToString(m2.Sum(nil)), nil
}

func clipBytes(b []byte) string {
	if len(b) > 60 {
		return string(b[:60]) + "..."
	}
	return string(b)
}

// ChannelBinding returns the binding data of the given type for the server's connection state.
func ChannelBinding(st *tls.ConnectionState, name string) ([]byte, error) {
	if st == nil {
		return nil, fmt.Errorf("no TLS connection")
	}
	switch name {
	case "tls-unique":
		if st.Version >= tls.VersionTLS13 {
			return nil, fmt.Errorf("tls-unique is not defined for TLS 1.3")
		}
		if len(st.TLSUnique) == 0 {
			return nil, fmt.Errorf("no tls-unique value")
		}
		return st.TLSUnique, nil
	case "tls-exporter":
		return st.ExportKeyingMaterial("EXPORTER-Channel-Binding", nil, 32)
	}
	return nil, fmt.Errorf("unsupported channel binding %q", name)
}

// Scram is a conforming SCRAM server for one account.
func Scram(acc Account, p ScramParams, res *Result) refsmtp.AuthHandler {
	return func(mech string, initial []byte, io *refsmtp.AuthIO, st *tls.ConnectionState) string {
		name := p.MechName()
		first := initial
		var err error
		if first == nil {
			if first, err = io.Challenge(nil); err != nil {
				res.set(name, false, false, "aborted before client-first")
				return "501 5.5.2 cancelled"
			}
		}
		cf, perr := ParseClientFirst(string(first))
		if perr != nil {
			res.set(name, false, true, "client-first: "+perr.Error())
			return "501 5.5.2 malformed client-first-message"
		}
		res.mu.Lock()
		res.Nonces = append(res.Nonces, cf.Nonce)
		res.CBType = cf.CBName
		res.mu.Unlock()
		var cbData []byte
		if p.Plus {
			if cf.CBFlag != "p" {
				res.set(name, false, true, "PLUS mechanism without channel binding (flag "+cf.CBFlag+")")
				return "535 5.7.8 channel binding required"
			}
			// the binding type must fit the TLS version of this very connection
			want := "tls-unique"
			if st != nil && st.Version >= tls.VersionTLS13 {
				want = "tls-exporter"
			}
			if cf.CBName != want {
				res.set(name, false, true, fmt.Sprintf("channel binding type %q, but the connection requires %q", cf.CBName, want))
				return "535 5.7.8 unsupported channel binding type"
			}
			if cbData, err = ChannelBinding(st, cf.CBName); err != nil {
				res.set(name, false, true, "channel binding: "+err.Error())
				return "535 5.7.8 channel binding unavailable"
			}
		} else if cf.CBFlag == "p" {
			res.set(name, false, true, "channel binding requested on a non-PLUS mechanism")
			return "535 5.7.8 channel binding not supported"
		}
		sf := ServerFirst(p, cf.Nonce)
		cfin, err := io.Challenge([]byte(sf))
		if err != nil {
			res.set(name, false, false, "aborted after server-first: "+err.Error())
			return "501 5.5.2 cancelled"
		}
		pass := acc.Pass
		sig, verr := VerifyFinal(p, pass, cf, sf, string(cfin), cbData)
		if verr != nil || !eq(cf.User, acc.User) {
			reason := "unknown user " + strconv.Quote(cf.User)
			if verr != nil {
				reason = verr.Error()
			}
			res.set(name, false, false, reason)
			return "535 5.7.8 authentication failed"
		}
		ack, err := io.Challenge([]byte("v=" + sig))
		if err != nil {
			res.set(name, false, false, "client rejected the server signature: "+err.Error())
			return "501 5.5.2 cancelled"
		}
		if len(ack) != 0 {
			res.set(name, false, true, "client answered the server-final message with data")
			return "501 5.5.2 unexpected data"
		}
		res.set(name, true, false, "proof verified")
		return final(true)
	}
}
