package mimeread

import (
	"mime"
	"net/mail"
	"testing"

	"pgregory.net/rapid"
)

func TestDecodeWordsVectors(t *testing.T) {
	cases := map[string]string{
		"=?UTF-8?q?a?= =?UTF-8?q?b?=":                 "ab",
		"=?UTF-8?q?a?=  x =?UTF-8?q?b?=":              "a  x b",
		"plain text":                                  "plain text",
		"=?UTF-8?q?caf=C3=A9?=, =?utf-8?b?ZXZpbA==?=": "café, evil",
		"x=?UTF-8?q?a_b?=y":                           "xa by",
		"=?UTF-8?q?":                                  "=?UTF-8?q?",
		"=?ISO-8859-1?Q?a?=":                          "a",
	}
	for in, want := range cases {
		got, _ := DecodeWords(in)
		if got != want {
			t.Errorf("DecodeWords(%q) = %q, want %q", in, got, want)
		}
	}
}

// The decoder must invert Go's encoders for any string (differential against the stdlib encoder).
func TestDecodeWordsInvertsEncoder(t *testing.T) {
	rapid.Check(t, func(t *rapid.T) {
		s := rapid.String().Draw(t, "s")
		for _, enc := range []mime.WordEncoder{mime.QEncoding, mime.BEncoding} {
			e := enc.Encode("UTF-8", s)
			if e == s {
				continue
			}
			got, _ := DecodeWords(e)
			if got != s {
				t.Fatalf("decode(encode(%q)) = %q (encoded %q)", s, got, e)
			}
		}
	})
}

func TestAddressListAgainstStdlib(t *testing.T) {
	rapid.Check(t, func(t *rapid.T) {
		n := rapid.IntRange(1, 4).Draw(t, "n")
		var list []*mail.Address
		var rendered string
		for i := 0; i < n; i++ {
			a := &mail.Address{Name: rapid.String().Filter(func(s string) bool {
				for _, r := range s {
					if r < 32 || r == 127 || r == 0xfffd {
						return false
					}
				}
				return true
			}).Draw(t, "name"), Address: rapid.StringMatching(`[a-z]{1,8}@[a-z]{1,8}\.[a-z]{2,3}`).Draw(t, "addr")}
			list = append(list, a)
			if i > 0 {
				rendered += ", "
			}
			rendered += a.String()
		}
		got, err := ParseAddressList(rendered)
		if err != nil {
			t.Fatalf("parse %q: %v", rendered, err)
		}
		if len(got) != len(list) {
			t.Fatalf("parse %q: %d mailboxes, want %d", rendered, len(got), len(list))
		}
		for i := range list {
			wantName := list[i].Name
			if normWS(got[i].Name) != normWS(wantName) || got[i].Addr != list[i].Address {
				t.Fatalf("parse %q: mailbox %d = %+v, want %+v", rendered, i, got[i], list[i])
			}
		}
	})
}

func normWS(s string) string {
	out := ""
	prev := false
	for _, r := range s {
		if r == ' ' || r == '\t' {
			prev = true
			continue
		}
		if prev && out != "" {
			out += " "
		}
		prev = false
		out += string(r)
	}
	return out
}
