package mimeread

import (
	"sort"
	"strconv"
	"strings"
)

// ExtendedParam looks for the RFC 2231 forms of a parameter (name*=charset'lang'pct, and the
// continuations name*0, name*1*, ...) among parsed parameters and returns the value they denote. A
// reader that implements RFC 2231 / RFC 6266 prefers this form over the plain parameter, so whatever it
// says is what such a recipient sees. ok is false when no extended form is present.
func ExtendedParam(params map[string]string, name string) (value string, ok bool) {
	type seg struct {
		n   int
		ext bool
		v   string
	}
	var segs []seg
	for k, v := range params {
		if !strings.HasPrefix(k, name+"*") {
			continue
		}
		rest := k[len(name)+1:]
		if rest == "" {
			segs = append(segs, seg{n: 0, ext: true, v: v})
			continue
		}
		ext := strings.HasSuffix(rest, "*")
		num, err := strconv.Atoi(strings.TrimSuffix(rest, "*"))
		if err != nil {
			continue
		}
		segs = append(segs, seg{n: num, ext: ext, v: v})
	}
	if len(segs) == 0 {
		return "", false
	}
	sort.Slice(segs, func(i, j int) bool { return segs[i].n < segs[j].n })
	charset := ""
	var raw []byte
	for i, s := range segs {
		v := s.v
		if s.ext {
			if i == 0 {
				// charset'language'value
				p := strings.SplitN(v, "'", 3)
				if len(p) == 3 {
					charset, v = p[0], p[2]
				}
			}
			for j := 0; j < len(v); j++ {
				if v[j] == '%' && j+2 < len(v) {
					if b, err := strconv.ParseUint(v[j+1:j+3], 16, 8); err == nil {
						raw = append(raw, byte(b))
						j += 2
						continue
					}
				}
				raw = append(raw, v[j])
			}
		} else {
			raw = append(raw, v...)
		}
	}
	return interpret(string(raw), charset), true
}
