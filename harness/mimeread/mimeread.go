// Package mimeread is an independent, line-oriented reader for RFC 5322 / 2045 / 2046 / 2047
// messages. It deliberately uses nothing from mime/*, net/mail or net/textproto, so that it can
// serve as an oracle for output that go-mail produces with exactly those packages.
package mimeread

import (
	"bytes"
	"fmt"
	"strings"
)

// Field is one header field as found in a header section.
type Field struct {
	Name     string   // as written
	Lines    []string // physical lines (without CRLF), first one includes "Name:"
	Raw      string   // value with folding kept (CRLF between lines), leading blank after ':' removed
	Unfolded string   // value with CRLF before WSP removed
	Offset   int      // offset of the first line in the entity bytes
}

// Entity is a MIME entity: a header section and a body, possibly multipart.
type Entity struct {
	Fields    []Field
	BodyStart int    // offset of first body byte relative to Raw
	Raw       []byte // the complete entity
	Body      []byte // raw body
	MediaType string // lower-cased type/subtype ("" if no Content-Type)
	Params    map[string]string
	CTE       string // lower-cased content-transfer-encoding ("" if absent)
	Children  []*Entity
	Preamble  []byte
	Epilogue  []byte
	Depth     int
	Problems  []string // structural problems (not line-discipline; see Lint)
	Notes     []string // obsolete-but-harmless syntax seen (e.g. whitespace-only continuation lines)
	// HasBlankLine is true when the header section was terminated by an empty line.
	HasBlankLine bool
}

// Parse reads a complete entity (message or body part).
func Parse(data []byte) *Entity {
	return parseEntity(data, 0, nil)
}

func isFieldNameByte(c byte) bool { return c > 32 && c < 127 && c != ':' }

// splitCRLF splits data at CRLF; a final segment without CRLF is returned with term=false.
type physLine struct {
	text string
	off  int
	term bool
}

func splitCRLF(data []byte) []physLine {
	var out []physLine
	pos := 0
	for pos < len(data) {
		i := bytes.Index(data[pos:], []byte("\r\n"))
		if i < 0 {
			out = append(out, physLine{string(data[pos:]), pos, false})
			return out
		}
		out = append(out, physLine{string(data[pos : pos+i]), pos, true})
		pos += i + 2
	}
	return out
}

func parseEntity(data []byte, depth int, outer []string) *Entity {
	e := &Entity{Raw: data, Depth: depth, Params: map[string]string{}}
	// header section: up to the first empty line
	pos := 0
	var cur *Field
	flush := func() {
		if cur == nil {
			return
		}
		first := cur.Lines[0]
		colon := strings.IndexByte(first, ':')
		v := first[colon+1:]
		raw := v
		unf := v
		for _, l := range cur.Lines[1:] {
			raw += "\r\n" + l
			unf += l
		}
		cur.Raw = strings.TrimLeft(raw, " \t")
		cur.Unfolded = strings.TrimLeft(unf, " \t")
		e.Fields = append(e.Fields, *cur)
		cur = nil
	}
	for {
		if pos >= len(data) {
			flush()
			e.BodyStart = len(data)
			break
		}
		i := bytes.Index(data[pos:], []byte("\r\n"))
		var line string
		next := 0
		if i < 0 {
			line = string(data[pos:])
			next = len(data)
			e.Problems = append(e.Problems, fmt.Sprintf("header line at %d not terminated by CRLF", pos))
		} else {
			line = string(data[pos : pos+i])
			next = pos + i + 2
		}
		if line == "" && i >= 0 {
			flush()
			e.HasBlankLine = true
			e.BodyStart = next
			break
		}
		if line[0] == ' ' || line[0] == '\t' {
			if cur == nil {
				e.Problems = append(e.Problems, fmt.Sprintf("continuation line without field at %d: %q", pos, clip(line)))
			} else {
				cur.Lines = append(cur.Lines, line)
			}
			if strings.Trim(line, " \t") == "" {
				e.Notes = append(e.Notes, fmt.Sprintf("whitespace-only continuation line at %d", pos))
			}
		} else {
			colon := strings.IndexByte(line, ':')
			ok := colon > 0
			if ok {
				for k := 0; k < colon; k++ {
					if !isFieldNameByte(line[k]) {
						ok = false
						break
					}
				}
			}
			if !ok {
				e.Problems = append(e.Problems, fmt.Sprintf("line at %d is neither a field nor a continuation: %q", pos, clip(line)))
			} else {
				flush()
				cur = &Field{Name: line[:colon], Lines: []string{line}, Offset: pos}
			}
		}
		pos = next
	}
	e.Body = data[e.BodyStart:]
	// content type
	if ct, ok := e.Get("Content-Type"); ok {
		mt, params, err := ParseParamField(ct)
		if err != nil {
			e.Problems = append(e.Problems, "Content-Type: "+err.Error())
		}
		e.MediaType = strings.ToLower(mt)
		e.Params = params
	}
	if cte, ok := e.Get("Content-Transfer-Encoding"); ok {
		e.CTE = strings.ToLower(strings.TrimSpace(cte))
	}
	if strings.HasPrefix(e.MediaType, "multipart/") {
		b, ok := e.Params["boundary"]
		if !ok || b == "" {
			e.Problems = append(e.Problems, "multipart without boundary parameter")
			return e
		}
		for _, ob := range outer {
			if ob == b {
				e.Problems = append(e.Problems, "nested multipart reuses enclosing boundary "+b)
			}
		}
		e.splitMultipart(b, append(append([]string{}, outer...), b))
	}
	return e
}

func clip(s string) string {
	if len(s) > 80 {
		return s[:80] + "..."
	}
	return s
}

// delimiter line test: "--" boundary [ "--" ] *LWSP
func delimKind(line, boundary string) int { // 0 none, 1 delimiter, 2 close
	if !strings.HasPrefix(line, "--"+boundary) {
		return 0
	}
	rest := line[2+len(boundary):]
	kind := 1
	if strings.HasPrefix(rest, "--") {
		kind = 2
		rest = rest[2:]
	}
	if strings.Trim(rest, " \t") != "" {
		return 0
	}
	return kind
}

func (e *Entity) splitMultipart(boundary string, outer []string) {
	body := e.Body
	lines := splitCRLF(body)
	// find delimiter lines
	type dl struct{ idx, kind int }
	var ds []dl
	for i, l := range lines {
		if k := delimKind(l.text, boundary); k != 0 {
			ds = append(ds, dl{i, k})
			if k == 2 {
				break
			}
		}
	}
	if len(ds) == 0 {
		e.Problems = append(e.Problems, "multipart body without any delimiter line")
		return
	}
	// preamble: everything before first delimiter (without the CRLF that precedes it)
	firstOff := lines[ds[0].idx].off
	if firstOff >= 2 {
		e.Preamble = body[:firstOff-2]
	}
	if ds[0].kind == 2 {
		// close delimiter only: zero parts
		e.Problems = append(e.Problems, "multipart with close delimiter but no parts")
	}
	closed := false
	for k := 0; k < len(ds); k++ {
		if ds[k].kind == 2 {
			closed = true
			l := lines[ds[k].idx]
			end := l.off + len(l.text)
			if l.term {
				end += 2
			}
			e.Epilogue = body[end:]
			break
		}
		l := lines[ds[k].idx]
		if !l.term {
			e.Problems = append(e.Problems, "delimiter line not terminated")
			break
		}
		start := l.off + len(l.text) + 2
		var stop int
		if k+1 < len(ds) {
			stop = lines[ds[k+1].idx].off - 2 // strip the CRLF belonging to the delimiter
			if stop < start {
				// delimiter directly follows: the part is "headers only" with no blank line;
				// RFC 2046 requires CRLF before the delimiter, part content is empty
				stop = start
			}
		} else {
			stop = len(body)
			e.Problems = append(e.Problems, "multipart not terminated by a close delimiter")
		}
		child := parseEntity(body[start:stop], e.Depth+1, outer)
		e.Children = append(e.Children, child)
	}
	if !closed && len(e.Problems) == 0 {
		e.Problems = append(e.Problems, "multipart not terminated by a close delimiter")
	}
}

// Get returns the unfolded value of the first field with that name (case-insensitive).
func (e *Entity) Get(name string) (string, bool) {
	for _, f := range e.Fields {
		if strings.EqualFold(f.Name, name) {
			return f.Unfolded, true
		}
	}
	return "", false
}

// All returns all unfolded values of fields with that name.
func (e *Entity) All(name string) []string {
	var out []string
	for _, f := range e.Fields {
		if strings.EqualFold(f.Name, name) {
			out = append(out, f.Unfolded)
		}
	}
	return out
}

// Count returns how often the field occurs.
func (e *Entity) Count(name string) int { return len(e.All(name)) }

// Leaves returns the non-multipart entities in document order.
func (e *Entity) Leaves() []*Entity {
	if !strings.HasPrefix(e.MediaType, "multipart/") {
		return []*Entity{e}
	}
	var out []*Entity
	for _, c := range e.Children {
		out = append(out, c.Leaves()...)
	}
	return out
}

// Walk calls fn for every entity in document order (pre-order).
func (e *Entity) Walk(fn func(*Entity)) {
	fn(e)
	for _, c := range e.Children {
		c.Walk(fn)
	}
}

// AllProblems collects structural problems of the whole tree.
func (e *Entity) AllProblems() []string {
	var out []string
	e.Walk(func(x *Entity) {
		for _, p := range x.Problems {
			out = append(out, fmt.Sprintf("depth %d (%s): %s", x.Depth, x.MediaType, p))
		}
	})
	return out
}

// Shape renders the nesting as a string like "mixed(related(alternative(L,L),L),L)".
func (e *Entity) Shape() string {
	if !strings.HasPrefix(e.MediaType, "multipart/") {
		return "L"
	}
	var kids []string
	for _, c := range e.Children {
		kids = append(kids, c.Shape())
	}
	return strings.TrimPrefix(e.MediaType, "multipart/") + "(" + strings.Join(kids, ",") + ")"
}

// Decoded returns the body after undoing the content-transfer-encoding, plus problems seen
// while decoding.
func (e *Entity) Decoded() ([]byte, []string) {
	switch e.CTE {
	case "quoted-printable":
		return DecodeQP(e.Body)
	case "base64":
		return DecodeB64(e.Body)
	case "", "7bit", "8bit", "binary":
		return e.Body, nil
	}
	return e.Body, []string{"unknown content-transfer-encoding " + e.CTE}
}

// ---------------------------------------------------------------------------------------------
// structured fields

func isTokenByte(c byte) bool {
	if c <= 32 || c >= 127 {
		return false
	}
	return !strings.ContainsRune(`()<>@,;:\"/[]?=`, rune(c))
}

// ParseParamField parses `value; attr=token; attr="quoted"` (Content-Type, Content-Disposition).
// The main value is returned as written (trimmed); parameter names are lower-cased.
func ParseParamField(s string) (string, map[string]string, error) {
	params := map[string]string{}
	i := strings.IndexByte(s, ';')
	if i < 0 {
		return strings.TrimSpace(s), params, nil
	}
	main := strings.TrimSpace(s[:i])
	rest := s[i:]
	for {
		rest = strings.TrimLeft(rest, " \t")
		if rest == "" {
			return main, params, nil
		}
		if rest[0] != ';' {
			return main, params, fmt.Errorf("expected ';' at %q", clip(rest))
		}
		rest = strings.TrimLeft(rest[1:], " \t")
		if rest == "" {
			return main, params, nil // trailing ';' tolerated
		}
		j := 0
		for j < len(rest) && isTokenByte(rest[j]) {
			j++
		}
		if j == 0 {
			return main, params, fmt.Errorf("missing parameter name at %q", clip(rest))
		}
		name := strings.ToLower(rest[:j])
		rest = strings.TrimLeft(rest[j:], " \t")
		if rest == "" || rest[0] != '=' {
			return main, params, fmt.Errorf("parameter %s without '='", name)
		}
		rest = strings.TrimLeft(rest[1:], " \t")
		var val string
		if rest != "" && rest[0] == '"' {
			var sb strings.Builder
			k := 1
			closed := false
			for k < len(rest) {
				c := rest[k]
				if c == '\\' && k+1 < len(rest) {
					sb.WriteByte(rest[k+1])
					k += 2
					continue
				}
				if c == '"' {
					closed = true
					k++
					break
				}
				sb.WriteByte(c)
				k++
			}
			if !closed {
				return main, params, fmt.Errorf("unterminated quoted-string in parameter %s", name)
			}
			val = sb.String()
			rest = rest[k:]
		} else {
			k := 0
			for k < len(rest) && isTokenByte(rest[k]) {
				k++
			}
			if k == 0 {
				return main, params, fmt.Errorf("parameter %s has an empty or illegal value at %q", name, clip(rest))
			}
			val = rest[:k]
			rest = rest[k:]
		}
		if _, dup := params[name]; dup {
			return main, params, fmt.Errorf("duplicate parameter %s", name)
		}
		params[name] = val
	}
}

// ---------------------------------------------------------------------------------------------
// RFC 2047

// DecodeWords decodes RFC 2047 encoded-words in s. Whitespace between two adjacent
// encoded-words is dropped. Words labelled ISO-8859-1 or US-ASCII are interpreted accordingly (see
// interpret), all other bytes are returned as they are; the second result lists the charsets seen.
func DecodeWords(s string) (string, []string) {
	var out strings.Builder
	var charsets []string
	i := 0
	lastWasEW := false
	pendingWS := ""
	for i < len(s) {
		if s[i] == ' ' || s[i] == '\t' {
			j := i
			for j < len(s) && (s[j] == ' ' || s[j] == '\t') {
				j++
			}
			pendingWS = s[i:j]
			i = j
			continue
		}
		// a word runs to next whitespace
		j := i
		for j < len(s) && s[j] != ' ' && s[j] != '\t' {
			j++
		}
		word := s[i:j]
		dec, cs, endsEW := decodeMaybeWords(word)
		startsEW := strings.HasPrefix(word, "=?") && cs != nil
		switch {
		case cs != nil:
			if !(lastWasEW && startsEW) {
				out.WriteString(pendingWS)
			}
			out.WriteString(dec)
			charsets = append(charsets, cs...)
			lastWasEW = endsEW
		default:
			out.WriteString(pendingWS)
			out.WriteString(word)
			lastWasEW = false
		}
		pendingWS = ""
		i = j
	}
	out.WriteString(pendingWS)
	return out.String(), charsets
}

// decodeMaybeWords handles a blank-free token. Strictly (RFC 2047 section 5) an encoded-word in
// unstructured text is delimited by whitespace; like every practical decoder (and like Go's
// mime.WordDecoder) this one also recognises encoded-words that are directly followed or preceded
// by other characters such as the ", " go-mail puts between multiple values. ok is true when the
// token ended in an encoded-word (so that whitespace up to a following encoded-word is dropped).
func decodeMaybeWords(word string) (string, []string, bool) {
	if dec, cs, ok := decodeWord(word); ok {
		return dec, []string{cs}, true
	}
	var sb strings.Builder
	var charsets []string
	i := 0
	endsInEW := false
	found := false
	for i < len(word) {
		start := strings.Index(word[i:], "=?")
		if start < 0 {
			break
		}
		start += i
		// find the end: =?charset?e?text?=
		q1 := strings.IndexByte(word[start+2:], '?')
		if q1 < 0 {
			break
		}
		q1 += start + 2
		if q1+2 >= len(word) || word[q1+2] != '?' {
			sb.WriteString(word[i : start+2])
			i = start + 2
			continue
		}
		end := strings.Index(word[q1+3:], "?=")
		if end < 0 {
			break
		}
		end += q1 + 3 + 2
		dec, cs, ok := decodeWord(word[start:end])
		if !ok {
			sb.WriteString(word[i : start+2])
			i = start + 2
			continue
		}
		sb.WriteString(word[i:start])
		sb.WriteString(dec)
		charsets = append(charsets, cs)
		found = true
		i = end
		endsInEW = i == len(word)
	}
	if !found {
		return "", nil, false
	}
	sb.WriteString(word[i:])
	_ = endsInEW
	return sb.String(), charsets, endsInEW
}

func decodeWord(w string) (string, string, bool) {
	if len(w) < 8 || !strings.HasPrefix(w, "=?") || !strings.HasSuffix(w, "?=") {
		return "", "", false
	}
	inner := w[2 : len(w)-2]
	parts := strings.SplitN(inner, "?", 3)
	if len(parts) != 3 || parts[0] == "" || len(parts[1]) != 1 {
		return "", "", false
	}
	if strings.Contains(parts[2], "?") {
		return "", "", false
	}
	switch parts[1] {
	case "q", "Q":
		var sb strings.Builder
		t := parts[2]
		for k := 0; k < len(t); k++ {
			switch {
			case t[k] == '_':
				sb.WriteByte(' ')
			case t[k] == '=':
				if k+2 > len(t)-1 {
					return "", "", false
				}
				h, ok1 := unhex(t[k+1])
				l, ok2 := unhex(t[k+2])
				if !ok1 || !ok2 {
					return "", "", false
				}
				sb.WriteByte(h<<4 | l)
				k += 2
			default:
				sb.WriteByte(t[k])
			}
		}
		return interpret(sb.String(), parts[0]), strings.ToLower(parts[0]), true
	case "b", "B":
		d, ok := b64Strict(parts[2])
		if !ok {
			return "", "", false
		}
		return interpret(string(d), parts[0]), strings.ToLower(parts[0]), true
	}
	return "", "", false
}

// interpret maps the bytes of an encoded-word to text according to its charset label, for the
// labels whose meaning is fixed without tables: ISO-8859-1 (every byte is the code point of the
// same number) and US-ASCII (bytes above 0x7f have no meaning: U+FFFD). Everything else, UTF-8
// first of all, is returned as it is. A word whose label does not fit its bytes (UTF-8 text
// labelled ISO-8859-1) therefore decodes to something else than the text that was set.
func interpret(raw, charset string) string {
	cs := strings.ToLower(charset)
	if k := strings.IndexByte(cs, '*'); k >= 0 { // RFC 2231 language suffix
		cs = cs[:k]
	}
	var latin1 bool
	switch cs {
	case "iso-8859-1", "iso_8859-1", "latin1", "l1", "iso8859-1":
		latin1 = true
	case "us-ascii", "ascii", "ansi_x3.4-1968":
	default:
		return raw
	}
	var sb strings.Builder
	for i := 0; i < len(raw); i++ {
		switch {
		case raw[i] < 0x80:
			sb.WriteByte(raw[i])
		case latin1:
			sb.WriteRune(rune(raw[i]))
		default:
			sb.WriteRune('\uFFFD')
		}
	}
	return sb.String()
}

func unhex(c byte) (byte, bool) {
	switch {
	case c >= '0' && c <= '9':
		return c - '0', true
	case c >= 'A' && c <= 'F':
		return c - 'A' + 10, true
	case c >= 'a' && c <= 'f':
		return c - 'a' + 10, true
	}
	return 0, false
}

const b64alpha = "ABCDEFGHIJKLMNOPQRSTUVWXYZabcdefghijklmnopqrstuvwxyz0123456789+/"

func b64val(c byte) int {
	switch {
	case c >= 'A' && c <= 'Z':
		return int(c - 'A')
	case c >= 'a' && c <= 'z':
		return int(c-'a') + 26
	case c >= '0' && c <= '9':
		return int(c-'0') + 52
	case c == '+':
		return 62
	case c == '/':
		return 63
	}
	return -1
}

// b64Strict decodes canonical padded base64 without line breaks.
func b64Strict(s string) ([]byte, bool) {
	if len(s)%4 != 0 {
		return nil, false
	}
	var out []byte
	for i := 0; i < len(s); i += 4 {
		q := s[i : i+4]
		pad := 0
		var v [4]int
		for k := 0; k < 4; k++ {
			if q[k] == '=' {
				if i+4 != len(s) || k < 2 {
					return nil, false
				}
				pad++
				v[k] = 0
				continue
			}
			if pad > 0 {
				return nil, false
			}
			v[k] = b64val(q[k])
			if v[k] < 0 {
				return nil, false
			}
		}
		n := v[0]<<18 | v[1]<<12 | v[2]<<6 | v[3]
		out = append(out, byte(n>>16))
		if pad < 2 {
			out = append(out, byte(n>>8))
		}
		if pad < 1 {
			out = append(out, byte(n))
		}
	}
	return out, true
}

// ---------------------------------------------------------------------------------------------
// transfer decodings

// DecodeB64 decodes a base64 body made of CRLF-terminated lines. Problems are reported for
// lines longer than 76, bytes outside the alphabet and bare CR/LF.
func DecodeB64(body []byte) ([]byte, []string) {
	var probs []string
	var all strings.Builder
	for _, l := range splitCRLF(body) {
		if len(l.text) > 76 {
			probs = append(probs, fmt.Sprintf("base64 line of %d characters", len(l.text)))
		}
		if strings.ContainsAny(l.text, "\r\n") {
			probs = append(probs, "bare CR or LF in base64 body")
		}
		if !l.term && l.text != "" {
			probs = append(probs, "last base64 line not terminated by CRLF")
		}
		all.WriteString(l.text)
	}
	s := all.String()
	d, ok := b64Strict(s)
	if !ok {
		probs = append(probs, "base64 body is not canonical base64")
		return nil, probs
	}
	return d, probs
}

// DecodeQP decodes a quoted-printable body (RFC 2045 §6.7), strictly.
func DecodeQP(body []byte) ([]byte, []string) {
	var probs []string
	var out []byte
	lines := splitCRLF(body)
	for _, l := range lines {
		t := l.text
		if len(t) > 76 {
			probs = append(probs, fmt.Sprintf("quoted-printable line of %d characters", len(t)))
		}
		soft := false
		if strings.HasSuffix(t, "=") {
			soft = true
			t = t[:len(t)-1]
		} else if n := len(strings.TrimRight(t, " \t")); n != len(t) {
			probs = append(probs, "quoted-printable line with trailing whitespace")
		}
		for k := 0; k < len(t); k++ {
			c := t[k]
			switch {
			case c == '=':
				if k+2 > len(t)-1 {
					probs = append(probs, "truncated =XX in quoted-printable body")
					k = len(t)
					continue
				}
				h, ok1 := unhex(t[k+1])
				lo, ok2 := unhex(t[k+2])
				if !ok1 || !ok2 || (t[k+1] >= 'a' && t[k+1] <= 'f') || (t[k+2] >= 'a' && t[k+2] <= 'f') {
					probs = append(probs, fmt.Sprintf("illegal =%c%c in quoted-printable body", t[k+1], t[k+2]))
					if !ok1 || !ok2 {
						continue
					}
				}
				out = append(out, h<<4|lo)
				k += 2
			case c == '\t' || (c >= 32 && c <= 126):
				out = append(out, c)
			default:
				probs = append(probs, fmt.Sprintf("raw byte 0x%02x in quoted-printable body", c))
				out = append(out, c)
			}
		}
		if !soft && l.term {
			out = append(out, '\r', '\n')
		}
		if soft && !l.term {
			probs = append(probs, "soft line break at end of quoted-printable body")
		}
	}
	return out, probs
}

// ---------------------------------------------------------------------------------------------
// line discipline

// LintIssue is a violation of line discipline.
type LintIssue struct {
	Kind   string // "bare-cr", "bare-lf", "hdr-long", "body-long", "hdr-unterminated"
	Where  string
	Line   string
	Depth  int
	Length int
	// Foldable is set for hdr-long when the line had a blank at which it could have been folded
	// (after the field name resp. after the leading blank).
	Foldable bool
}

// Lint checks line discipline of every header section and of every QP/base64 leaf body.
func (e *Entity) Lint() []LintIssue {
	var out []LintIssue
	e.Walk(func(x *Entity) {
		hdr := x.Raw[:x.BodyStart]
		for _, l := range splitCRLF(hdr) {
			if strings.ContainsRune(l.text, '\r') {
				out = append(out, LintIssue{Kind: "bare-cr", Where: "header", Line: clip(l.text), Depth: x.Depth})
			}
			if strings.ContainsRune(l.text, '\n') {
				out = append(out, LintIssue{Kind: "bare-lf", Where: "header", Line: clip(l.text), Depth: x.Depth})
			}
			if !l.term {
				out = append(out, LintIssue{Kind: "hdr-unterminated", Where: "header", Line: clip(l.text), Depth: x.Depth})
			}
			if len(l.text) > 78 {
				out = append(out, LintIssue{Kind: "hdr-long", Where: "header", Line: l.text, Depth: x.Depth,
					Length: len(l.text), Foldable: foldable(l.text)})
			}
		}
		if strings.HasPrefix(x.MediaType, "multipart/") {
			return
		}
		if x.CTE == "quoted-printable" || x.CTE == "base64" {
			for _, l := range splitCRLF(x.Body) {
				if strings.ContainsRune(l.text, '\r') {
					out = append(out, LintIssue{Kind: "bare-cr", Where: "body/" + x.CTE, Line: clip(l.text), Depth: x.Depth})
				}
				if strings.ContainsRune(l.text, '\n') {
					out = append(out, LintIssue{Kind: "bare-lf", Where: "body/" + x.CTE, Line: clip(l.text), Depth: x.Depth})
				}
				if len(l.text) > 76 {
					out = append(out, LintIssue{Kind: "body-long", Where: "body/" + x.CTE, Line: clip(l.text), Depth: x.Depth, Length: len(l.text)})
				}
			}
		}
	})
	return out
}

// foldable reports whether a header line has a folding opportunity: a blank that is neither the
// leading blank of a continuation line nor the blank directly after "Name:", with non-blank text
// on both sides.
func foldable(line string) bool {
	rest := line
	if line[0] == ' ' || line[0] == '\t' {
		rest = strings.TrimLeft(line, " \t")
	} else if c := strings.IndexByte(line, ':'); c >= 0 {
		rest = strings.TrimLeft(line[c+1:], " \t")
	}
	rest = strings.TrimRight(rest, " \t")
	return strings.ContainsAny(rest, " \t")
}

// ---------------------------------------------------------------------------------------------
// addresses

// Mailbox is a parsed RFC 5322 mailbox.
type Mailbox struct {
	Name string // display name, decoded (quoted-strings unescaped, encoded-words decoded)
	Addr string // addr-spec as written between the angle brackets (or the bare addr-spec)
}

// ParseAddressList parses the subset of RFC 5322 address-list that a generator of well-formed
// fields produces: mailboxes separated by commas, each `[phrase] "<" addr-spec ">"` or a bare
// addr-spec; phrase words are atoms, quoted-strings or encoded-words; addr-spec local parts may be
// quoted-strings. Comments and groups are not supported (reported as an error).
func ParseAddressList(s string) ([]Mailbox, error) {
	var out []Mailbox
	i := 0
	n := len(s)
	skipWS := func() {
		for i < n && (s[i] == ' ' || s[i] == '\t') {
			i++
		}
	}
	for {
		skipWS()
		if i >= n {
			break
		}
		var words []string // decoded phrase words
		var wordIsEW []bool
		var addr string
		gotAngle := false
		for i < n && s[i] != ',' {
			skipWS()
			if i >= n || s[i] == ',' {
				break
			}
			switch {
			case s[i] == '"':
				var sb strings.Builder
				i++
				closed := false
				for i < n {
					if s[i] == '\\' && i+1 < n {
						sb.WriteByte(s[i+1])
						i += 2
						continue
					}
					if s[i] == '"' {
						closed = true
						i++
						break
					}
					sb.WriteByte(s[i])
					i++
				}
				if !closed {
					return out, fmt.Errorf("unterminated quoted-string")
				}
				// a quoted-string directly followed by '@' is a quoted local part of a bare addr-spec
				if i < n && s[i] == '@' {
					j := i
					for j < n && s[j] != ',' && s[j] != ' ' && s[j] != '\t' {
						j++
					}
					addr = `"` + escapeQuoted(sb.String()) + `"` + s[i:j]
					i = j
					gotAngle = true
					continue
				}
				words = append(words, sb.String())
				wordIsEW = append(wordIsEW, false)
			case s[i] == '<':
				j := i + 1
				inq := false
				for j < n {
					if s[j] == '\\' && inq && j+1 < n {
						j += 2
						continue
					}
					if s[j] == '"' {
						inq = !inq
					}
					if s[j] == '>' && !inq {
						break
					}
					j++
				}
				if j >= n {
					return out, fmt.Errorf("unterminated angle-addr")
				}
				addr = s[i+1 : j]
				gotAngle = true
				i = j + 1
			case s[i] == '(':
				return out, fmt.Errorf("comments are not supported")
			default:
				j := i
				for j < n && s[j] != ' ' && s[j] != '\t' && s[j] != ',' && s[j] != '<' && s[j] != '"' {
					j++
				}
				w := s[i:j]
				if dec, _, ok := decodeWord(w); ok {
					words = append(words, dec)
					wordIsEW = append(wordIsEW, true)
				} else {
					words = append(words, w)
					wordIsEW = append(wordIsEW, false)
				}
				i = j
			}
		}
		if i < n && s[i] == ',' {
			i++
		}
		if !gotAngle {
			if len(words) == 1 && strings.Contains(words[0], "@") {
				out = append(out, Mailbox{Addr: words[0]})
				continue
			}
			if len(words) == 0 {
				continue
			}
			return out, fmt.Errorf("mailbox without addr-spec: %q", words)
		}
		var name strings.Builder
		for k, w := range words {
			if k > 0 && !(wordIsEW[k] && wordIsEW[k-1]) {
				name.WriteByte(' ')
			}
			name.WriteString(w)
		}
		out = append(out, Mailbox{Name: name.String(), Addr: addr})
	}
	return out, nil
}

func escapeQuoted(s string) string {
	var sb strings.Builder
	for i := 0; i < len(s); i++ {
		if s[i] == '"' || s[i] == '\\' {
			sb.WriteByte('\\')
		}
		sb.WriteByte(s[i])
	}
	return sb.String()
}
