module verif/harness

go 1.23

toolchain go1.23.5

require (
	github.com/wneessen/go-mail v0.0.0
	pgregory.net/rapid v1.3.0
)

require golang.org/x/text v0.22.0 // indirect

replace github.com/wneessen/go-mail => /repo
