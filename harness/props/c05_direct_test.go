package props

import (
	"context"
	"fmt"
	"strings"
	"testing"
	"time"

	netmail "net/mail"

	"github.com/wneessen/go-mail/smtp"
	"pgregory.net/rapid"

	"verif/harness/core"
	"verif/harness/gen"
	"verif/harness/refsmtp"
)

// C05, the exported smtp.Client API used directly. mail.Client hands smtp.Client only what net/mail has
// parsed; a program that uses the smtp package itself (as one uses net/smtp) passes RAW strings to Hello,
// Verify, Mail and Rcpt - including CR, LF and everything else. Whatever it passes, every line the client
// writes is one well-formed command, and a path that was transmitted denotes the mailbox that was passed.

type c05DirectCase struct {
	Hello  string   `json:"hello"`
	Verify *string  `json:"verify,omitempty"`
	From   string   `json:"from"`
	Rcpts  []string `json:"rcpts"`
	Caps   []string `json:"caps"`
	DSN    bool     `json:"dsn,omitempty"` // SetDSNMailReturnOption / SetDSNRcptNotifyOption with hostile values
	Ret    string   `json:"ret,omitempty"`
	Notify string   `json:"notify,omitempty"`
}

func splitLast(addr string) (string, string, bool) {
	i := strings.LastIndexByte(addr, '@')
	if i <= 0 || i == len(addr)-1 {
		return "", "", false
	}
	return addr[:i], addr[i+1:], true
}

func c05DirectRun(c c05DirectCase) []*core.Violation {
	rec := core.Rec("C05")
	srv := refsmtp.NewServer(refsmtp.Script{Caps: c.Caps, NoGreetProbe: true})
	d := &refsmtp.Dialer{Srv: srv}
	type step struct {
		what string
		arg  string
		err  error
	}
	var steps []step
	r := watchdog(20*time.Second, d, func() error {
		conn, err := d.DialContext(context.Background(), "tcp", refHost+":25")
		if err != nil {
			return err
		}
		sc, err := smtp.NewClient(conn, refHost)
		if err != nil {
			return err
		}
		defer func() { _ = sc.Close() }()
		err = sc.Hello(c.Hello)
		steps = append(steps, step{"hello", c.Hello, err})
		if c.Verify != nil {
			err = sc.Verify(*c.Verify)
			steps = append(steps, step{"verify", *c.Verify, err})
		}
		if c.DSN {
			sc.SetDSNMailReturnOption(c.Ret)
			sc.SetDSNRcptNotifyOption(c.Notify)
		}
		err = sc.Mail(c.From)
		steps = append(steps, step{"mail", c.From, err})
		if err == nil {
			for _, rc := range c.Rcpts {
				err = sc.Rcpt(rc)
				steps = append(steps, step{"rcpt", rc, err})
			}
		}
		_ = sc.Reset()
		_ = sc.Quit()
		return nil
	})
	d.Shutdown()
	if r.Panic != nil {
		return []*core.Violation{core.V("panic", "smtp.Client panicked: %v", r.Panic)}
	}
	if r.TimedOut || len(d.Sessions) == 0 {
		rec.AddExtra("inconclusive_watchdog", 1)
		return nil
	}
	s := d.Sessions[0]
	tr := s.Transcript(30)
	var vs []*core.Violation
	// The statement quantifies over the addresses the address setters accept. A raw string that no setter
	// would let through (a blank in the domain, say) is the program's own malformed path when it appears
	// as such on the wire; for those only the line discipline is judged: no CR/LF, no NUL, no command the
	// program did not ask for.
	settable := func(x string) bool {
		a, err := netmail.ParseAddress(x)
		return err == nil && a.Address == x && a.Name == ""
	}
	allSettable := true
	for _, x := range append([]string{c.From}, c.Rcpts...) {
		if !settable(x) {
			allSettable = false
		}
	}
	if c.DSN && (c.Ret != "FULL" && c.Ret != "HDRS" || strings.ContainsAny(c.Notify, " \r\n")) {
		allSettable = false // DSN values no option of mail.Client would accept
	}
	for _, v := range s.Violations {
		if !allSettable && (v.Key == "path-syntax" || v.Key == "param-syntax" || v.Key == "param-bad-value" || v.Key == "param-unknown" || v.Key == "trailing-garbage") {
			continue
		}
		if v.Key == "nul-in-line" && (strings.Contains(c.Hello, "\x00") || c.Verify != nil && strings.Contains(*c.Verify, "\x00")) {
			continue // the statement names CR/LF, extra arguments and extra parameters; a NUL in a greeting name or VRFY string is passed on as given
		}
		if v.Key == "helo-syntax" && c.Hello == "" {
			continue // an empty host name is the program's own malformed greeting (mail.Client refuses it: ErrInvalidHELO)
		}
		switch v.Key {
		case "helo-domain", "param-not-advertised", "unknown-param", "param-without-esmtp", "line-too-long":
			// not judged here: whether a single token is a valid domain, and parameters the program itself
			// asked for although the server does not offer the extension (the smtp package leaves that to
			// its caller, mail.Client, which C04 judges)
			continue
		}
		vs = append(vs, core.V("malformed-"+v.Key, "%s\n%s", v.Msg, tr))
	}
	// commands that arrived must be the ones the program asked for, with its values
	hostile := func(x string) bool { return strings.ContainsAny(x, "\r\n") }
	var wantRcpts []string
	mailOK := false
	for _, st := range steps {
		switch st.what {
		case "hello":
			if st.err == nil && (hostile(st.arg) || strings.ContainsAny(st.arg, " \t")) && len(s.HelloArgs) > 0 {
				vs = append(vs, core.V("hostile-value-accepted", "Hello(%q) was accepted and a greeting command was sent\n%s", st.arg, tr))
			}
		case "verify":
			if st.err == nil {
				if len(s.VrfyArgs) != 1 || s.VrfyArgs[0] != st.arg {
					vs = append(vs, core.V("wrong-vrfy", "Verify(%q) returned nil, the server received VRFY arguments %q\n%s", st.arg, s.VrfyArgs, tr))
				}
			} else if len(s.VrfyArgs) > 0 && hostile(st.arg) {
				vs = append(vs, core.V("hostile-value-sent", "Verify(%q) failed with %v, yet a VRFY command reached the server: %q", st.arg, st.err, s.VrfyArgs))
			}
		case "mail":
			mailOK = st.err == nil
			if st.err == nil {
				if len(s.Txns) != 1 {
					vs = append(vs, core.V("wrong-mail", "Mail(%q) returned nil, the server saw %d MAIL commands\n%s", st.arg, len(s.Txns), tr))
					break
				}
				l, dm, ok := refsmtp.SplitPath(s.Txns[0].From)
				wl, wd, wok := splitLast(st.arg)
				if settable(st.arg) && (!ok || !wok || l != wl || !strings.EqualFold(dm, wd)) {
					vs = append(vs, core.V("wrong-reverse-path", "Mail(%q) returned nil; the reverse-path <%s> denotes local %q domain %q\n%s", st.arg, s.Txns[0].From, l, dm, tr))
				}
			}
		case "rcpt":
			if st.err == nil {
				wantRcpts = append(wantRcpts, st.arg)
			}
		}
	}
	if !mailOK && len(s.Txns) > 0 && hostile(c.From) {
		vs = append(vs, core.V("hostile-value-sent", "Mail(%q) failed, yet a MAIL command reached the server: <%s>", c.From, s.Txns[0].From))
	}
	if len(s.Txns) == 1 {
		var got []string
		for _, rc := range s.Txns[0].Rcpts {
			got = append(got, rc.Path)
		}
		if len(got) != len(wantRcpts) {
			vs = append(vs, core.V("wrong-forward-paths", "%d RCPT calls returned nil (%q), the server saw %d RCPT commands (%q)\n%s", len(wantRcpts), wantRcpts, len(got), got, tr))
		} else {
			for i := range got {
				l, dm, ok := refsmtp.SplitPath(got[i])
				wl, wd, wok := splitLast(wantRcpts[i])
				if settable(wantRcpts[i]) && (!ok || !wok || l != wl || !strings.EqualFold(dm, wd)) {
					vs = append(vs, core.V("wrong-forward-path", "Rcpt(%q) returned nil; the forward-path <%s> denotes local %q domain %q\n%s", wantRcpts[i], got[i], l, dm, tr))
				}
			}
		}
		// parameters: only what the program configured, in a well-formed shape (the strict parser has
		// checked the syntax; here: nothing but RET / NOTIFY / BODY / SMTPUTF8 keywords)
		for _, p := range s.Txns[0].FromParams {
			if !allSettable {
				break
			}
			k, _, _ := strings.Cut(p, "=")
			if ku := strings.ToUpper(k); ku != "RET" && ku != "BODY" && ku != "SMTPUTF8" {
				vs = append(vs, core.V("extra-param", "MAIL carries parameter %q\n%s", p, tr))
			}
		}
		for _, rc := range s.Txns[0].Rcpts {
			for _, p := range rc.Params {
				if !allSettable {
					break
				}
				k, _, _ := strings.Cut(p, "=")
				if !strings.EqualFold(k, "NOTIFY") {
					vs = append(vs, core.V("extra-param", "RCPT carries parameter %q\n%s", p, tr))
				}
			}
		}
	}
	// no command the program did not ask for: EHLO/HELO, VRFY (at most one), MAIL (at most one), RCPT (at most
	// one per call), RSET, QUIT - in that order
	order := map[string]int{"EHLO": 0, "HELO": 0, "VRFY": 1, "MAIL": 2, "RCPT": 3, "RSET": 4, "QUIT": 5}
	last, counts := 0, map[string]int{}
	for _, st := range s.Steps {
		verb := strings.ToUpper(strings.SplitN(st, "#", 2)[0])
		if verb == "GREET" {
			continue
		}
		pos, known := order[verb]
		counts[verb]++
		if !known || pos < last {
			vs = append(vs, core.V("injected-command", "the server received the command step %q, which the program did not ask for at that point (steps %v)\n%s", st, s.Steps, tr))
			break
		}
		last = pos
	}
	if counts["MAIL"] > 1 || counts["VRFY"] > 1 || counts["RCPT"] > len(c.Rcpts) || counts["RSET"] > 1 || counts["QUIT"] > 1 {
		vs = append(vs, core.V("injected-command", "more commands than calls: steps %v\n%s", s.Steps, tr))
	}
	nt := false
	for _, x := range append([]string{c.Hello, c.From}, c.Rcpts...) {
		if strings.ContainsAny(x, "\r\n \t<>\"\\,;:") {
			nt = true
		}
	}
	if nt {
		rec.NonTrivial(core.Join("direct", core.Hash(fmt.Sprint(c))))
	}
	rec.Class("direct-smtp-api")
	rec.AddExtra("direct_smtp_api_cases", 1)
	return vs
}

func c05DirectValue(t *rapid.T, label string) string {
	switch rapid.IntRange(0, 3).Draw(t, label+"-kind") {
	case 0:
		return rapid.SampledFrom([]string{"user@example.com", "first.last@verif.example", "a b@example.com", "x>y@example.com", "q\"uote@example.com", "back\\slash@example.com",
			"x> NOTIFY=NEVER ORCPT=rfc822;y@example.com", "user@example.com> SIZE=1", "<user@example.com>", "user@example.com\r\nRSET", "user\n@example.com", "us\rer@example.com",
			"user@exam\r\nDATA\r\nple.com", "\r\nQUIT\r\n@example.com", "tab\tbed@example.com", "nul\x00@example.com", "üser@example.com", "100%sure@example.com", "%s%d@example.com"}).Draw(t, label+"-addr")
	case 1:
		return gen.Hostile(t, label+"-h", "mk") + "@example.com"
	default:
		n := rapid.IntRange(1, 5).Draw(t, label+"-n")
		var sb strings.Builder
		for i := 0; i < n; i++ {
			sb.WriteString(rapid.SampledFrom(append(append([]string{}, c05LocalChars...), "\r\n", "\n", "\r", "\r\nMAIL FROM:<x@y.example>", "\x00")).Draw(t, label+"-ch"))
		}
		return sb.String() + "@" + rapid.SampledFrom([]string{"example.com", "verif.example", "exa mple.com", "example.com\r\nNOOP"}).Draw(t, label+"-dom")
	}
}

func c05DirectGen(t *rapid.T) c05DirectCase {
	c := c05DirectCase{}
	for _, k := range []string{"8BITMIME", "SMTPUTF8", "DSN"} {
		if rapid.Bool().Draw(t, "cap-"+k) {
			c.Caps = append(c.Caps, k)
		}
	}
	c.Hello = rapid.SampledFrom([]string{"client.verif.example", "client.verif.example", "[127.0.0.1]", "two words", "host\r\nMAIL FROM:<a@b.example>", "host\nname", "tab\there", "", "host\r", "h\x00st"}).Draw(t, "hello")
	if rapid.Bool().Draw(t, "hasverify") {
		v := c05DirectValue(t, "vrfy")
		if rapid.Bool().Draw(t, "vrfyplain") {
			v = rapid.SampledFrom([]string{"postmaster", "some user", "user@example.com", "user\r\nRSET", "user\nNOOP", "a\rb"}).Draw(t, "vrfyval")
		}
		c.Verify = &v
	}
	c.From = c05DirectValue(t, "from")
	n := rapid.IntRange(1, 3).Draw(t, "nrcpt")
	for i := 0; i < n; i++ {
		c.Rcpts = append(c.Rcpts, c05DirectValue(t, "rcpt"))
	}
	if rapid.IntRange(0, 2).Draw(t, "dsn") == 0 {
		c.DSN = true
		c.Ret = rapid.SampledFrom([]string{"FULL", "HDRS", "FULL\r\nRSET", "HDRS SIZE=1", "full"}).Draw(t, "ret")
		c.Notify = rapid.SampledFrom([]string{"NEVER", "SUCCESS,FAILURE", "SUCCESS\r\nRSET", "FAILURE ORCPT=rfc822;x@y.example", "DELAY"}).Draw(t, "notify")
	}
	return c
}

func TestC05Direct(t *testing.T) {
	c05Describe()
	core.Prop[c05DirectCase]{ID: "C05", Test: "TestC05Direct", Gen: c05DirectGen, Run: c05DirectRun}.Check(t)
}
