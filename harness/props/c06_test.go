package props

import (
	"bytes"
	"context"
	"fmt"
	"io"
	"os"
	"strings"
	"testing"
	"time"

	mail "github.com/wneessen/go-mail"
	"pgregory.net/rapid"

	"verif/harness/core"
	"verif/harness/mimeread"
	"verif/harness/oracle"
	"verif/harness/refsmtp"
)

// C06 — recipients are exactly To+Cc+Bcc, and Bcc stays hidden.

type c06Addr struct {
	Name    string `json:"name,omitempty"`
	Local   string `json:"local"`
	Domain  string `json:"domain"`
	Invalid string `json:"invalid,omitempty"` // non-empty: this text is handed over instead (not an address)
}

// spec is the addr-spec in RFC 5322 syntax: a local part that is not a dot-atom is a quoted-string.
func (a c06Addr) spec() string {
	if strings.ContainsAny(a.Local, "@ \"(),:;<>[\\]") {
		return quoteName(a.Local) + "@" + a.Domain
	}
	return a.Local + "@" + a.Domain
}

func (a c06Addr) text() string {
	if a.Invalid != "" {
		return a.Invalid
	}
	spec := a.spec()
	if a.Name != "" {
		return quoteName(a.Name) + " <" + spec + ">"
	}
	return spec
}

func (a c06Addr) asciiOnly() bool {
	for i := 0; i < len(a.Name); i++ {
		if a.Name[i] >= 0x80 {
			return false
		}
	}
	return true
}

type c06Op struct {
	Kind  string    `json:"kind"`
	Hdr   string    `json:"hdr,omitempty"` // to | cc | bcc | from | env | replyto
	Addrs []c06Addr `json:"addrs,omitempty"`
	// Again (ignoreinvalid / setaddrheaderignoreinvalid): the call is made twice with the caller's same slice.
	Again bool `json:"again,omitempty"`
}

type c06Case struct {
	Ops []c06Op `json:"ops"`
	// RejectRcpt > 0: the server refuses (550) the k-th RCPT of the transaction. A message that lost a
	// recipient must not go out to the others as if nothing had happened.
	RejectRcpt int `json:"reject_rcpt,omitempty"`
}

type c06Model struct {
	lists map[string][]c06Addr
}

func hdrConst(h string) mail.AddrHeader {
	switch h {
	case "to":
		return mail.HeaderTo
	case "cc":
		return mail.HeaderCc
	case "bcc":
		return mail.HeaderBcc
	case "from":
		return mail.HeaderFrom
	case "env":
		return mail.HeaderEnvelopeFrom
	}
	return mail.HeaderReplyTo
}

func c06Run(c c06Case) []*core.Violation {
	rec := core.Rec("C06")
	m := mail.NewMsg()
	model := map[string][]c06Addr{}
	var vs []*core.Violation
	allValid := func(as []c06Addr) bool {
		for _, a := range as {
			if a.Invalid != "" {
				return false
			}
		}
		return true
	}
	texts := func(as []c06Addr) []string {
		var out []string
		for _, a := range as {
			out = append(out, a.text())
		}
		return out
	}
	getter := func(h string) []string {
		var out []string
		for _, a := range m.GetAddrHeader(hdrConst(h)) {
			out = append(out, a.Address+"|"+oracle.NormWS(a.Name))
		}
		return out
	}
	// reconcile an IgnoreInvalid call: result must be a subsequence of the valid inputs and contain
	// at least every valid input whose display name is ASCII
	ignoreInvalid := func(h string, in []c06Addr, first bool) {
		got := getter(h)
		var kept []c06Addr
		gi := 0
		for _, a := range in {
			if a.Invalid != "" {
				continue
			}
			addr := a.Local + "@" + a.Domain + "|" + oracle.NormWS(a.Name)
			if gi < len(got) && got[gi] == addr {
				kept = append(kept, a)
				gi++
				if first {
					break
				}
				continue
			}
			if a.asciiOnly() && !(first && len(kept) > 0) {
				vs = append(vs, core.V("ignoreinvalid-dropped-valid", "%sIgnoreInvalid dropped the valid address %q (result %v)", h, a.text(), got))
			}
		}
		if !first && gi != len(got) {
			vs = append(vs, core.V("ignoreinvalid-kept-other", "%sIgnoreInvalid(%q) left %v, which is not a subsequence of the valid inputs", h, texts(in), got))
		}
		if first {
			if len(kept) > 0 {
				model[h] = kept[:1]
			}
			return
		}
		model[h] = kept
	}
	var kinds []string
	for _, op := range c.Ops {
		kinds = append(kinds, op.Kind+":"+op.Hdr)
		var err error
		switch op.Kind {
		case "set": // To / Cc / Bcc (replace, strict) or From / EnvelopeFrom / ReplyTo (single)
			switch op.Hdr {
			case "to":
				err = m.To(texts(op.Addrs)...)
			case "cc":
				err = m.Cc(texts(op.Addrs)...)
			case "bcc":
				err = m.Bcc(texts(op.Addrs)...)
			case "from":
				err = m.From(op.Addrs[0].text())
			case "env":
				err = m.EnvelopeFrom(op.Addrs[0].text())
			case "replyto":
				err = m.ReplyTo(op.Addrs[0].text())
			}
			if op.Hdr == "from" || op.Hdr == "env" || op.Hdr == "replyto" {
				if (err == nil) != (op.Addrs[0].Invalid == "") {
					vs = append(vs, core.V("setter-verdict", "%s(%q) returned %v", op.Hdr, op.Addrs[0].text(), err))
				}
				if err == nil {
					model[op.Hdr] = op.Addrs[:1]
				}
			} else {
				if (err == nil) != allValid(op.Addrs) {
					vs = append(vs, core.V("setter-verdict", "%s(%q) returned %v", op.Hdr, texts(op.Addrs), err))
				}
				if err == nil {
					model[op.Hdr] = append([]c06Addr{}, op.Addrs...)
				}
			}
		case "add":
			a := op.Addrs[0]
			switch op.Hdr {
			case "to":
				err = m.AddTo(a.text())
			case "cc":
				err = m.AddCc(a.text())
			case "bcc":
				err = m.AddBcc(a.text())
			}
			if (err == nil) != (a.Invalid == "") {
				vs = append(vs, core.V("setter-verdict", "Add%s(%q) returned %v", op.Hdr, a.text(), err))
			}
			if err == nil {
				model[op.Hdr] = append(model[op.Hdr], a)
			}
		case "addformat":
			a := op.Addrs[0]
			spec := a.spec()
			if a.Invalid != "" {
				spec = a.Invalid
			}
			switch op.Hdr {
			case "to":
				err = m.AddToFormat(a.Name, spec)
			case "cc":
				err = m.AddCcFormat(a.Name, spec)
			case "bcc":
				err = m.AddBccFormat(a.Name, spec)
			case "from":
				err = m.FromFormat(a.Name, spec)
			case "env":
				err = m.EnvelopeFromFormat(a.Name, spec)
			case "replyto":
				err = m.ReplyToFormat(a.Name, spec)
			}
			if err == nil && a.Invalid != "" {
				vs = append(vs, core.V("setter-verdict", "%sFormat(%q, %q) accepted an invalid address", op.Hdr, a.Name, spec))
			}
			if err == nil && a.Invalid == "" {
				if op.Hdr == "from" || op.Hdr == "env" || op.Hdr == "replyto" {
					model[op.Hdr] = []c06Addr{a}
				} else {
					model[op.Hdr] = append(model[op.Hdr], a)
				}
			}
			if err != nil && a.Invalid == "" {
				vs = append(vs, core.V("setter-verdict", "%sFormat(%q, %q) rejected a valid address: %v", op.Hdr, a.Name, spec, err))
			}
		case "ignoreinvalid":
			// the caller's own slice, spread as list... - and, with Again, used a second time for the same
			// call (as in a loop over several messages): it still holds what the caller put there
			list := texts(op.Addrs)
			for pass := 0; pass < 2; pass++ {
				switch op.Hdr {
				case "to":
					m.ToIgnoreInvalid(list...)
				case "cc":
					m.CcIgnoreInvalid(list...)
				case "bcc":
					m.BccIgnoreInvalid(list...)
				}
				if !op.Again {
					break
				}
			}
			ignoreInvalid(op.Hdr, op.Addrs, false)
		case "fromstring":
			joined := strings.Join(texts(op.Addrs), ", ")
			if len(op.Addrs) == 0 {
				joined = " , "
			}
			switch op.Hdr {
			case "to":
				err = m.ToFromString(joined)
			case "cc":
				err = m.CcFromString(joined)
			case "bcc":
				err = m.BccFromString(joined)
			}
			if (err == nil) != allValid(op.Addrs) {
				vs = append(vs, core.V("setter-verdict", "%sFromString(%q) returned %v", op.Hdr, joined, err))
			}
			if err == nil {
				model[op.Hdr] = append([]c06Addr{}, op.Addrs...)
			}
		case "setaddrheader":
			err = m.SetAddrHeader(hdrConst(op.Hdr), texts(op.Addrs)...)
			if (err == nil) != allValid(op.Addrs) {
				vs = append(vs, core.V("setter-verdict", "SetAddrHeader(%s, %q) returned %v", op.Hdr, texts(op.Addrs), err))
			}
			if err == nil {
				if op.Hdr == "from" {
					if len(op.Addrs) > 0 {
						model[op.Hdr] = op.Addrs[:1]
					}
				} else {
					model[op.Hdr] = append([]c06Addr{}, op.Addrs...)
				}
			}
		case "setaddrheaderignoreinvalid":
			list := texts(op.Addrs)
			m.SetAddrHeaderIgnoreInvalid(hdrConst(op.Hdr), list...)
			if op.Again && op.Hdr != "from" {
				m.SetAddrHeaderIgnoreInvalid(hdrConst(op.Hdr), list...)
			}
			ignoreInvalid(op.Hdr, op.Addrs, op.Hdr == "from")
		case "reset":
			m.Reset()
			model = map[string][]c06Addr{}
		case "render":
			// the caller renders (or sends) the message in the middle of building it, e.g. one mailing
			// with a bounce address per recipient: rendering neither consumes nor changes the lists
			if len(m.GetParts()) == 0 {
				m.SetBodyString(mail.TypeTextPlain, "c06 body text\r\n")
			}
			_, _ = m.WriteTo(io.Discard)
		case "sendmailfail":
			// the caller hands the message to a local sendmail binary that fails (exit status 1), and
			// falls back to SMTP afterwards: the failed attempt leaves nothing behind in the message
			if _, serr := os.Stat("/bin/false"); serr == nil {
				if len(m.GetParts()) == 0 {
					m.SetBodyString(mail.TypeTextPlain, "c06 body text\r\n")
				}
				if err := m.WriteToSendmailWithCommand("/bin/false"); err == nil {
					vs = append(vs, core.V("sendmail-failure-unreported", "WriteToSendmailWithCommand(/bin/false) returned nil"))
				}
				rec.AddExtra("failed_sendmail_runs", 1)
			}
		default:
			return []*core.Violation{core.V("HARNESS-op", "unknown op %q", op.Kind)}
		}
	}
	if len(vs) > 0 {
		return vs
	}
	m.Subject("c06 subject")
	m.SetBodyString(mail.TypeTextPlain, "c06 body text\r\n")

	// --- render
	var buf bytes.Buffer
	if _, err := m.WriteTo(&buf); err != nil {
		return []*core.Violation{core.V("render-error", "%v", err)}
	}
	root := mimeread.Parse(buf.Bytes())
	for _, p := range root.AllProblems() {
		vs = append(vs, core.V("structure", "%s", p))
	}
	// Bcc tokens must not occur anywhere: raw, or after decoding headers and leaves
	var haystacks [][]byte
	haystacks = append(haystacks, buf.Bytes())
	root.Walk(func(e *mimeread.Entity) {
		for _, f := range e.Fields {
			d, _ := mimeread.DecodeWords(f.Unfolded)
			haystacks = append(haystacks, []byte(d))
		}
	})
	for _, l := range root.Leaves() {
		d, _ := l.Decoded()
		haystacks = append(haystacks, d)
	}
	visible := map[string]bool{}
	for _, k := range []string{"to", "cc", "from", "env", "replyto"} {
		for _, a := range model[k] {
			for _, b := range model["bcc"] {
				// the search below is for substrings: a visible mailbox that contains the Bcc token hides it
				if strings.Contains(strings.ToLower(a.Local), strings.ToLower(b.Local)) {
					visible[strings.ToLower(b.Local)] = true
				}
			}
		}
	}
	for _, b := range model["bcc"] {
		if visible[strings.ToLower(b.Local)] {
			continue // the same mailbox is also a visible recipient: its occurrence is not a leak
		}
		for _, h := range haystacks {
			if bytes.Contains(bytes.ToLower(h), []byte(strings.ToLower(b.Local))) {
				vs = append(vs, core.V("bcc-leaked", "the Bcc mailbox %s@%s appears in the rendered message", b.Local, b.Domain))
				break
			}
		}
	}
	if root.Count("Bcc") != 0 {
		vs = append(vs, core.V("bcc-leaked", "the rendered message has a Bcc field"))
	}
	checkField := func(field string, want []c06Addr) {
		n := root.Count(field)
		if len(want) == 0 {
			if n != 0 {
				v, _ := root.Get(field)
				vs = append(vs, core.V("field-unexpected", "field %s present (%q) although the list is empty", field, v))
			}
			return
		}
		if n != 1 {
			vs = append(vs, core.V("field-count", "field %s occurs %d times, expected once", field, n))
			return
		}
		v, _ := root.Get(field)
		boxes, err := mimeread.ParseAddressList(v)
		if err != nil || len(boxes) != len(want) {
			vs = append(vs, core.V("field-parse", "field %s: %q parses to %d mailboxes (err %v), expected %d", field, clipS(v), len(boxes), err, len(want)))
			return
		}
		for i := range boxes {
			if l, dm, ok := refsmtp.SplitPath(boxes[i].Addr); ok {
				boxes[i].Addr = l + "@" + dm
			}
			if boxes[i].Addr != want[i].Local+"@"+want[i].Domain || strings.Trim(boxes[i].Name, " \t") != strings.Trim(want[i].Name, " \t") {
				vs = append(vs, core.V("field-mismatch", "field %s mailbox %d is %+v, expected name %q addr %s@%s", field, i, boxes[i], want[i].Name, want[i].Local, want[i].Domain))
			}
		}
	}
	fromWant := model["from"]
	if len(fromWant) == 0 {
		fromWant = model["env"]
	}
	checkField("From", fromWant)
	checkField("To", model["to"])
	checkField("Cc", model["cc"])
	checkField("Reply-To", model["replyto"])

	// --- send
	script := refsmtp.Script{Caps: []string{"8BITMIME", "SMTPUTF8"}, NoGreetProbe: true}
	if c.RejectRcpt > 0 {
		script.Steps = map[string]refsmtp.Outcome{fmt.Sprintf("rcpt#1.%d", c.RejectRcpt): {Kind: "reply", Code: 550, Text: "5.1.1 no such user"}}
	}
	srv := refsmtp.NewServer(script)
	d := &refsmtp.Dialer{Srv: srv}
	cfg := smtpCfg{TLS: "none"}
	cl, err := mail.NewClient(refHost, cfg.options(d)...)
	if err != nil {
		return []*core.Violation{core.V("HARNESS-newclient", "%v", err)}
	}
	var sendErr error
	res := watchdog(20*time.Second, d, func() error {
		sendErr = cl.DialAndSendWithContext(context.Background(), m)
		return nil
	})
	d.Shutdown()
	if res.Panic != nil {
		return append(vs, core.V("panic", "client panicked: %v", res.Panic))
	}
	if res.TimedOut {
		rec.AddExtra("inconclusive_watchdog", 1)
		return vs
	}
	var wantRcpts []string
	for _, h := range []string{"to", "cc", "bcc"} {
		for _, a := range model[h] {
			wantRcpts = append(wantRcpts, a.Local+"@"+a.Domain)
		}
	}
	wantSender := ""
	if len(model["env"]) > 0 {
		wantSender = model["env"][0].Local + "@" + model["env"][0].Domain
	} else if len(model["from"]) > 0 {
		wantSender = model["from"][0].Local + "@" + model["from"][0].Domain
	}
	s := d.Sessions[0]
	tr := s.Transcript(30)
	if wantSender == "" || len(wantRcpts) == 0 {
		if sendErr == nil || len(s.Txns) > 0 {
			vs = append(vs, core.V("sent-without-envelope", "sender %q, %d recipients, but DialAndSend returned %v and the server saw %d MAIL commands", wantSender, len(wantRcpts), sendErr, len(s.Txns)))
		}
	} else if c.RejectRcpt > 0 && c.RejectRcpt <= len(wantRcpts) {
		// one recipient of the list was refused: the message is not delivered to a part of the list
		rec.Class("a-recipient-refused")
		for _, t := range s.Txns {
			if t.Committed {
				var got []string
				for _, r := range t.Rcpts {
					if r.Accepted {
						got = append(got, r.Path)
					}
				}
				vs = append(vs, core.V("delivered-to-a-part-of-the-list", "RCPT %d of %d was refused (550), yet the message was committed for %v; To+Cc+Bcc = %v (DialAndSend returned %v)\n%s", c.RejectRcpt, len(wantRcpts), got, wantRcpts, sendErr, tr))
			}
		}
		if sendErr == nil {
			vs = append(vs, core.V("refused-recipient-unreported", "RCPT %d was refused (550) but DialAndSend returned nil", c.RejectRcpt))
		}
	} else {
		if sendErr != nil || len(s.Txns) != 1 {
			vs = append(vs, core.V("send-failed", "DialAndSend returned %v, %d transactions\n%s", sendErr, len(s.Txns), tr))
		} else {
			t := s.Txns[0]
			if l, dm, ok := refsmtp.SplitPath(t.From); ok {
				t.From = l + "@" + dm
			}
			if t.From != wantSender {
				vs = append(vs, core.V("wrong-sender", "MAIL FROM:<%s>, expected <%s> (envelope-from set: %v)", t.From, wantSender, len(model["env"]) > 0))
			}
			var got []string
			for _, r := range t.Rcpts {
				if l, dm, ok := refsmtp.SplitPath(r.Path); ok {
					got = append(got, l+"@"+dm) // local part un-quoted
				} else {
					got = append(got, r.Path)
				}
			}
			if strings.Join(got, " ") != strings.Join(wantRcpts, " ") {
				vs = append(vs, core.V("wrong-recipients", "RCPT sequence %v, expected To+Cc+Bcc = %v", got, wantRcpts))
			}
			// the committed content must not contain Bcc either
			for _, b := range model["bcc"] {
				if visible[strings.ToLower(b.Local)] {
					continue
				}
				if bytes.Contains(bytes.ToLower(t.Payload), []byte(strings.ToLower(b.Local))) {
					vs = append(vs, core.V("bcc-leaked", "the Bcc mailbox %s appears in the transmitted content", b.Local))
				}
			}
		}
	}
	for _, v := range s.Violations {
		vs = append(vs, core.V("protocol-"+v.Key, "%s\n%s", v.Msg, tr))
	}
	// evidence
	perList := map[string]int{}
	for _, op := range c.Ops {
		perList[op.Hdr]++
		rec.Class("op:" + op.Kind)
	}
	multi := false
	for _, n := range perList {
		if n >= 2 {
			multi = true
		}
	}
	if len(model["bcc"]) >= 1 && multi {
		rec.NonTrivial(strings.Join(kinds, ","))
		rec.Sample(fmt.Sprint(len(c.Ops)), map[string]interface{}{"ops": kinds, "to": len(model["to"]), "cc": len(model["cc"]), "bcc": len(model["bcc"]), "sender": wantSender})
	}
	return vs
}

var c06Names = []string{"", "", "Alice Example", "Müller, Jörg", "日本 太郎", "quote\"inside", "back\\slash", "Dr. A. B. <not@addr>", "comma, separated; semi", "(paren)", "a@b", "Ünï cödé with a really long display name that needs several encoded words to fit",
	// runes that are not "printable" for strconv but perfectly legal in a display name
	"100% Name", "%s %d %v", "ACME  Billing", "Doe,   John  Q.", "50%off, Sales", "山田\u3000太郎", "Jean\u00a0Dupont", "rtl\u200fmark", "soft\u00adhyphen", "zero\u200bwidth"}
var c06Invalid = []string{"not an address", "missing-domain@", "@missing-local.example", "two words@example.com", "trailing@example.com>", "<unclosed@example.com", "a@b@c@", ""}

func c06GenAddr(t *rapid.T, hdr string, seq *int) c06Addr {
	*seq++
	if rapid.IntRange(0, 5).Draw(t, "invalid") == 0 {
		inv := rapid.SampledFrom(c06Invalid).Draw(t, "invalidtext")
		if inv == "" {
			inv = " "
		}
		return c06Addr{Invalid: inv}
	}
	a := c06Addr{Name: rapid.SampledFrom(c06Names).Draw(t, "name"), Domain: rapid.SampledFrom([]string{"example.com", "verif.example", "example.org"}).Draw(t, "domain")}
	// unique tokens: a Bcc mailbox never looks like anything else in the message
	a.Local = fmt.Sprintf("%sq%dzq", hdr, *seq)
	if rapid.IntRange(0, 4).Draw(t, "atext") == 0 {
		// every atext special is legal in a local part (and must reach the envelope unchanged)
		a.Local += rapid.SampledFrom([]string{"%s", "%d", "%%x", "+tag", "!#$&'*", "/=?^_`{|}~", "%example.org",
			// local parts that have to be quoted on the wire and in the header ('@', blank, ',' inside)
			"@home", " spaced", ",comma", "@evil.test> NOTIFY=NEVER"}).Draw(t, "special")
	}
	if hdr != "bcc" && rapid.IntRange(0, 6).Draw(t, "dup") == 0 {
		a.Local = hdr + "dupzq" // duplicates are legal: one RCPT per occurrence
	}
	if hdr == "bcc" && rapid.IntRange(0, 7).Draw(t, "bccdup") == 0 {
		// a blind copy for a mailbox that is (or differs only in case from) a visible recipient: still one
		// RCPT per occurrence; local parts are case-sensitive (RFC 5321 2.4)
		a.Local = rapid.SampledFrom([]string{"todupzq", "ccdupzq", "Todupzq", "CCDUPZQ"}).Draw(t, "bccduplocal")
	}
	return a
}

func c06Gen(t *rapid.T) c06Case {
	var c c06Case
	seq := 0
	n := rapid.IntRange(2, 12).Draw(t, "nops")
	for i := 0; i < n; i++ {
		kind := rapid.SampledFrom([]string{"set", "set", "add", "add", "addformat", "addformat", "ignoreinvalid", "fromstring", "setaddrheader", "setaddrheaderignoreinvalid", "reset", "render", "sendmailfail"}).Draw(t, "kind")
		if kind == "sendmailfail" && rapid.IntRange(0, 2).Draw(t, "reallysendmail") != 0 {
			kind = "add"
		}
		if kind == "reset" && rapid.IntRange(0, 3).Draw(t, "reallyreset") != 0 {
			kind = "add"
		}
		op := c06Op{Kind: kind}
		switch kind {
		case "reset", "render", "sendmailfail":
		case "add", "ignoreinvalid", "fromstring":
			op.Hdr = rapid.SampledFrom([]string{"to", "cc", "bcc", "bcc"}).Draw(t, "hdr")
			op.Again = kind == "ignoreinvalid" && rapid.Bool().Draw(t, "again")
		case "setaddrheaderignoreinvalid":
			op.Hdr = rapid.SampledFrom([]string{"to", "cc", "bcc", "from"}).Draw(t, "hdr")
			op.Again = rapid.Bool().Draw(t, "again")
		default:
			op.Hdr = rapid.SampledFrom([]string{"to", "cc", "bcc", "bcc", "from", "from", "env", "replyto"}).Draw(t, "hdr")
		}
		single := kind == "add" || kind == "addformat" || (kind == "set" && (op.Hdr == "from" || op.Hdr == "env" || op.Hdr == "replyto"))
		cnt := 1
		if !single && kind != "reset" && kind != "render" && kind != "sendmailfail" {
			cnt = rapid.IntRange(1, 4).Draw(t, "naddrs")
			// calling a list setter with no address at all clears the list (one call in eight)
			if (kind == "set" || kind == "fromstring" || kind == "setaddrheader" || kind == "ignoreinvalid") && op.Hdr != "from" && op.Hdr != "env" && op.Hdr != "replyto" && rapid.IntRange(0, 7).Draw(t, "emptylist") == 0 {
				cnt = 0
			}
			if kind == "setaddrheader" && (op.Hdr == "env" || op.Hdr == "replyto") {
				cnt = 1
			}
		}
		if kind != "reset" && kind != "render" && kind != "sendmailfail" {
			for j := 0; j < cnt; j++ {
				a := c06GenAddr(t, op.Hdr, &seq)
				if kind == "fromstring" && (strings.Contains(a.text(), ",") || a.Invalid == " ") {
					// ToFromString splits at commas itself: keep its inputs comma-free
					a.Name, a.Invalid = "Plain Name", ""
					if strings.Contains(a.Local, ",") {
						a.Local = ""
					}
					if a.Local == "" {
						seq++
						a.Local, a.Domain = fmt.Sprintf("%sq%dzq", op.Hdr, seq), "example.com"
					}
				}
				op.Addrs = append(op.Addrs, a)
			}
		}
		c.Ops = append(c.Ops, op)
	}
	if rapid.IntRange(0, 5).Draw(t, "rejectrcpt") == 0 {
		c.RejectRcpt = rapid.IntRange(1, 4).Draw(t, "rejectwhich")
	}
	return c
}

func TestC06(t *testing.T) {
	rec := core.Rec("C06")
	rec.Rule = "rapid draws a sequence of 2..12 address-setting calls (list setters also with an empty argument list, which clears the list) over To/Cc/Bcc/From/EnvelopeFrom/ReplyTo: strict setters (To, Cc, Bcc, From, EnvelopeFrom, ReplyTo, SetAddrHeader), Add*, *Format, *IgnoreInvalid, *FromString, SetAddrHeaderIgnoreInvalid, Reset and an intermediate render of the message and a FAILED hand-over to a local sendmail command (both must change nothing), with display names that need quoting or RFC 2047 encoding, duplicates, and invalid entries mixed in (one in six). Bcc mailboxes are unique tokens. " +
		"A model keeps the expected lists (replace vs append, all-or-nothing for strict setters, From keeps the first, IgnoreInvalid = subsequence of the valid inputs containing every valid ASCII-named input). The message is then rendered and sent with DialAndSend to the reference server. " +
		"Oracle: setter verdicts match validity; envelope sender = envelope-from if set else From; RCPT sequence == To ++ Cc ++ Bcc in order, one per occurrence (one case in six the server refuses the k-th RCPT: then nothing is committed for a part of the list and the call reports it); no Bcc token in the rendered or transmitted bytes, raw or after decoding every header (RFC 2047) and leaf (QP/base64); no Bcc field; From (or envelope-from), To, Cc, Reply-To occur once and parse (own RFC 5322 parser) to the model's names and mailboxes. " +
		"Non-trivial: >= 1 Bcc in the final model and >= 2 calls on the same list. Distinct by the call-kind sequence."
	rec.Assumptions = []string{"what IgnoreInvalid does with a valid address whose display name is non-ASCII is not fixed by the property (the code drops it); the model follows the getter there"}
	core.Prop[c06Case]{ID: "C06", Test: "TestC06", Gen: c06Gen, Run: c06Run}.Check(t)
}
