package props

import (
	"crypto/tls"
	"fmt"
	"strings"
	"sync"
	"time"

	mail "github.com/wneessen/go-mail"

	"verif/harness/refsmtp"
	"verif/harness/tlsutil"
)

// shared PKI for checks that run STARTTLS over in-memory pipes
var (
	pkiOnce   sync.Once
	pkiCA     *tlsutil.CA
	pkiLeaf   tls.Certificate
	pkiErr    error
	refHost   = "ref.verif.example"
	clientEHL = "client.verif.example"
)

func pki() (*tlsutil.CA, tls.Certificate) {
	pkiOnce.Do(func() {
		pkiCA, pkiErr = tlsutil.NewCA("verif test CA")
		if pkiErr != nil {
			return
		}
		pkiLeaf, pkiErr = pkiCA.Leaf([]string{refHost, "localhost"}, []string{"127.0.0.1", "127.0.0.2"})
	})
	if pkiErr != nil {
		panic("HARNESS-ERROR: pki: " + pkiErr.Error())
	}
	return pkiCA, pkiLeaf
}

func serverTLS(maxVersion uint16) *tls.Config {
	_, leaf := pki()
	return &tls.Config{Certificates: []tls.Certificate{leaf}, MinVersion: tls.VersionTLS12, MaxVersion: maxVersion}
}

func clientTLS() *tls.Config {
	ca, _ := pki()
	return &tls.Config{RootCAs: ca.Pool(), ServerName: refHost, MinVersion: tls.VersionTLS12}
}

func (c smtpCfg) clientTLS() *tls.Config {
	cfg := clientTLS()
	if c.SessionCache {
		cfg.ClientSessionCache = tls.NewLRUClientSessionCache(8)
	}
	return cfg
}

// smtpCfg is the serialisable client configuration used by the SMTP checks.
type smtpCfg struct {
	TLS string `json:"tls"` // none | opportunistic | mandatory
	// SessionCache: the caller's tls.Config has a ClientSessionCache, so a second connection of the
	// same Client resumes the TLS session of the first.
	SessionCache bool     `json:"session_cache,omitempty"`
	Auth         string   `json:"auth,omitempty"` // "" or a mail.SMTPAuthType value
	User         string   `json:"user,omitempty"`
	Pass         string   `json:"pass,omitempty"`
	DSN          string   `json:"dsn,omitempty"` // "" | default (WithDSN) | custom
	DSNRet       string   `json:"dsn_ret,omitempty"`
	DSNNotify    []string `json:"dsn_notify,omitempty"`
	HELO         string   `json:"helo,omitempty"`
	TimeoutMS    int      `json:"timeout_ms,omitempty"`
	NoNoop       bool     `json:"no_noop,omitempty"`
	// Fallback: use WithTLSPortPolicy(TLSOpportunistic), which configures a fallback port; the
	// harness then refuses the first dial so that the session runs on the fallback connection.
	Fallback bool `json:"fallback,omitempty"`
}

func (cfg *smtpCfg) options(d *refsmtp.Dialer) []mail.Option {
	opts := []mail.Option{mail.WithDialContextFunc(d.DialContext)}
	switch cfg.TLS {
	case "none":
		opts = append(opts, mail.WithTLSPolicy(mail.NoTLS))
	case "opportunistic":
		if cfg.Fallback {
			opts = append(opts, mail.WithTLSPortPolicy(mail.TLSOpportunistic), mail.WithTLSConfig(cfg.clientTLS()))
		} else {
			opts = append(opts, mail.WithTLSPolicy(mail.TLSOpportunistic), mail.WithTLSConfig(cfg.clientTLS()))
		}
	default:
		opts = append(opts, mail.WithTLSPolicy(mail.TLSMandatory), mail.WithTLSConfig(cfg.clientTLS()))
	}
	if cfg.Auth != "" {
		opts = append(opts, mail.WithSMTPAuth(mail.SMTPAuthType(cfg.Auth)), mail.WithUsername(cfg.User), mail.WithPassword(cfg.Pass))
	}
	switch cfg.DSN {
	case "default":
		opts = append(opts, mail.WithDSN())
	case "custom":
		if cfg.DSNRet != "" {
			opts = append(opts, mail.WithDSNMailReturnType(mail.DSNMailReturnOption(cfg.DSNRet)))
		}
		if len(cfg.DSNNotify) > 0 {
			var no []mail.DSNRcptNotifyOption
			for _, n := range cfg.DSNNotify {
				no = append(no, mail.DSNRcptNotifyOption(n))
			}
			opts = append(opts, mail.WithDSNRcptNotifyType(no...))
		}
	}
	helo := cfg.HELO
	if helo == "" {
		helo = clientEHL
	}
	opts = append(opts, mail.WithHELO(helo))
	to := cfg.TimeoutMS
	if to == 0 {
		to = 3000
	}
	opts = append(opts, mail.WithTimeout(time.Duration(to)*time.Millisecond))
	if cfg.NoNoop {
		opts = append(opts, mail.WithoutNoop())
	}
	return opts
}

// expectedDSN returns the RET value and NOTIFY value the client was configured with.
func (cfg *smtpCfg) expectedDSN() (ret, notify string) {
	switch cfg.DSN {
	case "default":
		return "FULL", "FAILURE,SUCCESS"
	case "custom":
		return cfg.DSNRet, strings.Join(cfg.DSNNotify, ",")
	}
	return "", ""
}

// callResult is the outcome of a client call under the watchdog.
type callResult struct {
	Err      error
	Panic    interface{}
	TimedOut bool // watchdog fired: the case is inconclusive (except where time is the property)
	Leaked   bool // the call did not even return after the connections were torn down
	Elapsed  time.Duration
}

// watchdog runs fn; if it does not return within limit, every connection of the dialer is torn
// down (which makes any blocked I/O fail) and the result is marked TimedOut.
func watchdog(limit time.Duration, d *refsmtp.Dialer, fn func() error) callResult {
	type r struct {
		err error
		pan interface{}
	}
	ch := make(chan r, 1)
	start := time.Now()
	go func() {
		var res r
		defer func() {
			if p := recover(); p != nil {
				res.pan = p
			}
			ch <- res
		}()
		res.err = fn()
	}()
	select {
	case res := <-ch:
		return callResult{Err: res.err, Panic: res.pan, Elapsed: time.Since(start)}
	case <-time.After(limit):
		d.Shutdown()
		select {
		case res := <-ch:
			return callResult{Err: res.err, Panic: res.pan, TimedOut: true, Elapsed: time.Since(start)}
		case <-time.After(10 * time.Second):
			return callResult{TimedOut: true, Leaked: true, Elapsed: time.Since(start)}
		}
	}
}

// acceptAnyAuth is a server-side handler that accepts PLAIN/LOGIN-style exchanges without
// looking at the credentials (used where authentication is not what is being judged).
func acceptAnyAuth(mech string, initial []byte, io *refsmtp.AuthIO, _ *tls.ConnectionState) string {
	switch mech {
	case "PLAIN":
		if initial == nil {
			if _, err := io.Challenge(nil); err != nil {
				return "501 5.5.2 cancelled"
			}
		}
		return "235 2.7.0 authenticated"
	case "LOGIN":
		if initial == nil {
			if _, err := io.Challenge([]byte("Username:")); err != nil {
				return "501 5.5.2 cancelled"
			}
		}
		if _, err := io.Challenge([]byte("Password:")); err != nil {
			return "501 5.5.2 cancelled"
		}
		return "235 2.7.0 authenticated"
	}
	return "504 5.5.4 unsupported mechanism"
}

func simpleMsg(i int, nRcpt int, enc string) *mail.Msg {
	m := mail.NewMsg(mail.WithEncoding(mail.Encoding(enc)))
	_ = m.From(fmt.Sprintf("m%d@sender.verif.example", i))
	var to []string
	for r := 0; r < nRcpt; r++ {
		to = append(to, fmt.Sprintf("r%d.%d@rcpt.verif.example", i, r))
	}
	_ = m.To(to...)
	m.Subject(fmt.Sprintf("message %d", i))
	m.SetBodyString(mail.TypeTextPlain, fmt.Sprintf("body of message %d TOKEN-%d-END\r\n", i, i))
	return m
}
