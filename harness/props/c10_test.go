package props

import (
	"bytes"
	"fmt"
	"strings"
	"testing"
	"time"
	"unicode/utf8"

	mail "github.com/wneessen/go-mail"
	"pgregory.net/rapid"

	"verif/harness/core"
	"verif/harness/gen"
	"verif/harness/mimeread"
	"verif/harness/oracle"
)

// C10 — render -> parse -> render preserves the message.

type c10Box struct {
	Name string `json:"name,omitempty"`
	Addr string `json:"addr"`
}

type c10Case struct {
	Spec    gen.MsgSpec `json:"spec"`
	Subject string      `json:"subject"`
	From    c10Box      `json:"from"`
	To      []c10Box    `json:"to"`
	Cc      []c10Box    `json:"cc,omitempty"`
	DateSec int64       `json:"date_sec"`
	// Extras: header fields the library generates on the caller's request - "importance:<low|high|urgent|non-urgent>",
	// "bulk", "org", "mdn", "custom" (a generic X- header with a mixed-case name). They have to survive the
	// round trip without being added a second time.
	Extras []string `json:"extras,omitempty"`
}

func (b c10Box) text() string {
	if b.Name == "" {
		return b.Addr
	}
	return quoteName(b.Name) + " <" + b.Addr + ">"
}

func c10Run(c c10Case) []*core.Violation {
	rec := core.Rec("C10")
	spec := c.Spec
	spec.From, spec.To, spec.Cc, spec.Subject, spec.FixedDate = "", nil, nil, nil, false
	b, err := gen.Build(&spec, env)
	if err != nil {
		rec.Skip()
		return nil
	}
	m := b.Msg
	if err := m.From(c.From.text()); err != nil {
		rec.Skip()
		return nil
	}
	for _, t := range c.To {
		if err := m.AddTo(t.text()); err != nil {
			rec.Skip()
			return nil
		}
	}
	for _, t := range c.Cc {
		if err := m.AddCc(t.text()); err != nil {
			rec.Skip()
			return nil
		}
	}
	m.Subject(c.Subject)
	for _, x := range c.Extras {
		switch x {
		case "importance:low":
			m.SetImportance(mail.ImportanceLow)
		case "importance:high":
			m.SetImportance(mail.ImportanceHigh)
		case "importance:urgent":
			m.SetImportance(mail.ImportanceUrgent)
		case "importance:non-urgent":
			m.SetImportance(mail.ImportanceNonUrgent)
		case "bulk":
			m.SetBulk()
		case "org":
			m.SetOrganization("Verif Org")
		case "mdn":
			_ = m.RequestMDNTo("mdn@verif.example")
		case "custom":
			m.SetGenHeader("X-VERIF-MixedCase-ID", "custom value 1")
			m.SetGenHeader("List-Unsubscribe", "<mailto:u@verif.example>")
		}
		rec.Class("extra:" + x)
	}
	date := time.Unix(c.DateSec, 0).UTC()
	m.SetDateWithValue(date)
	var first bytes.Buffer
	if _, err := m.WriteTo(&first); err != nil {
		return []*core.Violation{core.V("render-error", "%v", err)}
	}
	parsed, err := mail.EMLToMsgFromReader(bytes.NewReader(first.Bytes()))
	if err != nil {
		return []*core.Violation{core.V("parse-error", "parsing the rendering of a supported message failed: %v", err)}
	}
	var vs, kv []*core.Violation
	firstRoot := mimeread.Parse(first.Bytes())
	subjectCollapsed := false
	// --- getters of the parsed message vs. the model
	if sv := parsed.GetGenHeader(mail.HeaderSubject); len(sv) != 1 {
		vs = append(vs, core.V("subject", "parsed message has %d subject values", len(sv)))
	} else if d, _ := mimeread.DecodeWords(sv[0]); c10ws(d) != c10ws(c.Subject) {
		// Does the rendering carry the subject? If the independent reader unfolds it to the exact
		// value, the loss happened in the parser (white space next to a fold is collapsed).
		key := "subject"
		if rs := firstRoot.All("Subject"); len(rs) == 1 && oracle.NormWS(d) == oracle.NormWS(c.Subject) {
			if rd, _ := mimeread.DecodeWords(rs[0]); c10ws(rd) == c10ws(c.Subject) {
				key = "parser-collapses-ws-at-fold"
				subjectCollapsed = true
			}
		}
		kv = append(kv, core.V(key, "subject %q, expected %q", d, c.Subject))
	}
	cmpBoxes := func(what string, got []*mailAddr, want []c10Box) {
		if len(got) != len(want) {
			vs = append(vs, core.V("addresses", "%s has %d addresses, expected %d", what, len(got), len(want)))
			return
		}
		for i := range got {
			if got[i].Address != want[i].Addr || c10ws(got[i].Name) != c10ws(want[i].Name) {
				key := "addresses"
				if got[i].Address == want[i].Addr && oracle.NormWS(got[i].Name) == oracle.NormWS(want[i].Name) {
					// same question as for the subject: what does the rendering say?
					if rv := firstRoot.All(what); len(rv) == 1 {
						if boxes, err := mimeread.ParseAddressList(rv[0]); err == nil && i < len(boxes) && boxes[i].Addr == want[i].Addr && c10ws(boxes[i].Name) == c10ws(want[i].Name) {
							key = "parser-collapses-ws-at-fold"
						}
					}
				}
				kv = append(kv, core.V(key, "%s[%d] is %q <%s>, expected %q <%s>", what, i, got[i].Name, got[i].Address, want[i].Name, want[i].Addr))
			}
		}
	}
	cmpBoxes("From", parsed.GetFrom(), []c10Box{c.From})
	cmpBoxes("To", parsed.GetTo(), c.To)
	cmpBoxes("Cc", parsed.GetCc(), c.Cc)
	if dv := parsed.GetGenHeader(mail.HeaderDate); len(dv) != 1 {
		vs = append(vs, core.V("date", "parsed message has %d date values", len(dv)))
	} else if pt, err := time.Parse(time.RFC1123Z, dv[0]); err != nil || !pt.Equal(date) {
		vs = append(vs, core.V("date", "date %q (%v), expected %v", dv[0], err, date))
	}
	// parts
	var wantParts, wantFiles []gen.Leaf
	for _, l := range b.Leaves {
		if l.Kind == "part" {
			wantParts = append(wantParts, l)
		} else {
			wantFiles = append(wantFiles, l)
		}
	}
	gotParts := parsed.GetParts()
	if len(gotParts) != len(wantParts) {
		var kinds []string
		for _, p := range gotParts {
			kinds = append(kinds, string(p.GetContentType()))
		}
		vs = append(vs, core.V("parts-count", "parsed message has %d body parts %v, the original has %d", len(gotParts), kinds, len(wantParts)))
	} else {
		for i, p := range gotParts {
			w := wantParts[i]
			if !strings.EqualFold(string(p.GetContentType()), w.MediaType) {
				vs = append(vs, core.V("part-type", "part %d type %q, expected %q", i, p.GetContentType(), w.MediaType))
			}
			if !strings.EqualFold(string(p.GetCharset()), w.Charset) {
				vs = append(vs, core.V("part-charset", "part %d charset %q, expected %q", i, p.GetCharset(), w.Charset))
			}
			content, err := p.GetContent()
			exp := w.Content
			if w.CTE == "quoted-printable" {
				exp = oracle.CanonLF(exp)
			}
			if err != nil || !bytes.Equal(content, exp) {
				vs = append(vs, core.V("part-content", "part %d (%s) content %q (err %v), expected %q", i, w.CTE, clipS(string(content)), err, clipS(string(exp))))
			}
		}
	}
	// files
	cmpFiles := func(kind string, got []*mail.File, want []gen.Leaf) {
		if len(got) != len(want) {
			vs = append(vs, core.V("files-count", "parsed message has %d %ss, the original has %d", len(got), kind, len(want)))
			return
		}
		for i, f := range got {
			if f.Name != want[i].Filename {
				vs = append(vs, core.V("file-name", "%s %d is named %q, expected %q", kind, i, f.Name, want[i].Filename))
			}
			var buf bytes.Buffer
			if _, err := f.Writer(&buf); err != nil || !bytes.Equal(buf.Bytes(), want[i].Content) {
				vs = append(vs, core.V("file-content", "%s %d (%s) has content %q (err %v), expected %q", kind, i, want[i].CTE, clipS(buf.String()), err, clipS(string(want[i].Content))))
			}
		}
	}
	var wantEmb, wantAtt []gen.Leaf
	for _, l := range wantFiles {
		if l.Kind == "embed" {
			wantEmb = append(wantEmb, l)
		} else {
			wantAtt = append(wantAtt, l)
		}
	}
	cmpFiles("embed", parsed.GetEmbeds(), wantEmb)
	cmpFiles("attachment", parsed.GetAttachments(), wantAtt)
	for _, v := range kv {
		if v.Key != "parser-collapses-ws-at-fold" {
			vs = append(vs, v)
		}
	}
	if len(vs) > 0 {
		return vs
	}
	// what follows is checked as well when the only difference so far is the parser's known collapsing
	// of white space next to a fold
	vs = kv
	// --- re-render of the parsed message, read by the independent reader
	var second bytes.Buffer
	if _, err := parsed.WriteTo(&second); err != nil {
		return []*core.Violation{core.V("rerender-error", "%v", err)}
	}
	root := mimeread.Parse(second.Bytes())
	// nothing added: no field of the top-level section occurs more often (whatever the capitalisation of
	// its name) than in the rendering that was parsed
	count := func(e *mimeread.Entity) map[string]int {
		out := map[string]int{}
		for _, f := range e.Fields {
			out[strings.ToLower(f.Name)]++
		}
		return out
	}
	before, after := count(mimeread.Parse(first.Bytes())), count(root)
	for name, n := range after {
		if n > before[name] && before[name] >= 1 {
			vs = append(vs, core.V("rerender-duplicate-field", "re-rendered message: field %q occurs %d times at the top level, the parsed rendering had it %d time(s)", name, n, before[name]))
		}
	}
	root.Walk(func(e *mimeread.Entity) {
		for _, name := range []string{"Content-Type", "Content-Transfer-Encoding", "MIME-Version", "Subject", "From", "To", "Cc", "Date", "Message-ID", "Content-Disposition", "Content-ID"} {
			if n := e.Count(name); n > 1 {
				vs = append(vs, core.V("rerender-duplicate-field", "re-rendered message: field %s occurs %d times in the header section at depth %d: %q", name, n, e.Depth, e.All(name)))
			}
		}
	})
	want := make([]gen.Leaf, len(b.Leaves))
	copy(want, b.Leaves)
	for i := range want {
		if want[i].Kind != "part" {
			want[i].MediaType = "" // the parser does not keep a file's declared content type
		}
	}
	vs = append(vs, oracle.CompareLeaves(root, want, len(spec.Parts), len(spec.Embeds), len(spec.Attachments), oracle.LeafOpts{NoDesc: true, NoFileCTE: true})...)
	if sv := root.All("Subject"); len(sv) == 1 {
		if d, _ := mimeread.DecodeWords(sv[0]); c10ws(d) != c10ws(c.Subject) && !(subjectCollapsed && oracle.NormWS(d) == oracle.NormWS(c.Subject)) {
			vs = append(vs, core.V("rerender-subject", "re-rendered subject %q, expected %q", d, c.Subject))
		}
	}
	// evidence
	nonASCII := func(s string) bool {
		for i := 0; i < len(s); i++ {
			if s[i] >= 0x80 {
				return true
			}
		}
		return false
	}
	nt := len(b.Leaves) >= 2 || nonASCII(c.Subject) || nonASCII(c.From.Name)
	for _, l := range wantFiles {
		if nonASCII(l.Filename) {
			nt = true
		}
	}
	if nt {
		rec.NonTrivial(core.Join(spec.ShapeKey(), core.Hash(c.Subject+c.From.Name), len(c.To), len(c.Cc)))
		rec.Sample(fmt.Sprintf("%d", len(b.Leaves)), map[string]interface{}{"shape": spec.ShapeKey(), "subject": c.Subject, "from": c.From.text(), "to": len(c.To), "cc": len(c.Cc)})
	}
	for _, l := range b.Leaves {
		rec.Class("cte:" + l.CTE)
	}
	return vs
}

// legalText makes content legal for 7bit/8bit transport: CRLF line breaks, no NUL, lines <= 998,
// valid UTF-8 (and ASCII only for 7bit).
func legalText(b []byte, ascii bool) []byte {
	s := strings.ToValidUTF8(string(b), "?")
	s = strings.ReplaceAll(s, "\r\n", "\n")
	s = strings.ReplaceAll(s, "\r", "\n")
	var out []string
	for _, line := range strings.Split(s, "\n") {
		line = strings.ReplaceAll(line, "\x00", "0")
		if ascii {
			line = strings.Map(func(r rune) rune {
				if r >= 0x80 {
					return 'x'
				}
				return r
			}, line)
		}
		for len(line) > 900 {
			k := 900
			for k > 0 && !utf8.RuneStart(line[k]) {
				k--
			}
			out = append(out, line[:k])
			line = line[k:]
		}
		out = append(out, line)
	}
	return []byte(strings.Join(out, "\r\n"))
}

var c10Names = []string{"", "Alice Example", "Jörg Müller", "日本 太郎", "Name, With Comma", "quote \" inside", "Doe,  Jane", "Two  Blanks", "100% Name", "%s %d", "Ünï cödé long display name that needs more than one encoded word to be represented"}
var c10FileNames = []string{"file.txt", "report 2024.pdf", "übung.txt", "日本語のファイル.bin", "semi;colon.txt", "equals=sign.dat", "a b;c=d.txt", "noext", "ключ.key", "Annual%20Report%202024.pdf", "progress 100%.pdf", "very long file name with many words that goes on and on to force several encoded words in the header.txt"}
var c10Subjects = []string{"plain subject", "100% done: %s %d %v %!x(MISSING)", "Invoice 0815  -  May", "Total:\t42 EUR", "three   blanks and a long tail that is long enough to be folded over several lines   because it has many words in it", "Grüße aus Köln", "日本語の件名", "emoji \U0001F600 subject", "a subject that is long enough to be folded over several lines because it has many many many words in it", "mixed ascii and ünïcödé words in one line that is quite long and will need folding and several encoded words", "x"}

// c10ws: "the same subject" allows for nothing but white space at the two ends of the value.
func c10ws(s string) string { return strings.Trim(s, " \t") }

func c10Gen(t *rapid.T) c10Case {
	o := gen.GenOpts{
		Boundaries: true,
		Encodings:  []string{"quoted-printable", "base64", "8bit", "7bit"}, MaxParts: 3, MaxEmbeds: 2, MaxAttach: 3, AllowNoBody: true,
		PartEncs: []string{"", "", "quoted-printable", "base64", "8bit", "7bit"}, FileEncs: []string{"", "", "base64", "8bit", "7bit"},
		TextOnlyQP: true, Sources: []string{"reader", "readseeker", "file", "buffer-reuse", "reader-drain"}, Vias: []string{"string", "writer"},
	}
	spec := gen.Program(t, o)
	if len(spec.Parts) == 0 && len(spec.Embeds)+len(spec.Attachments) < 2 {
		// a lone file without any body is a single entity, not a multipart: the parser reads such a message
		// as a body (outside its feature set); body-less messages are generated with two or more files
		spec.Parts = append(spec.Parts, gen.PartSpec{CType: "text/plain", Content: []byte("body next to a lone file\r\n"), Via: "string"})
	}
	for i := range spec.Parts {
		p := &spec.Parts[i]
		p.Charset, p.Desc = "", ""
		eff := p.Enc
		if eff == "" {
			eff = spec.Encoding
		}
		switch eff {
		case "7bit":
			p.Content = legalText(p.Content, true)
		case "8bit":
			p.Content = legalText(p.Content, false)
		default:
			p.Content = []byte(strings.ToValidUTF8(string(p.Content), "?"))
		}
	}
	files := func(fs []gen.FileSpec, label string) {
		for i := range fs {
			f := &fs[i]
			f.Name = rapid.SampledFrom(c10FileNames).Draw(t, label+"name")
			f.Desc, f.CID = "", ""
			switch f.Enc {
			case "7bit":
				f.Content = legalText(f.Content, true)
			case "8bit":
				f.Content = legalText(f.Content, false)
			}
		}
	}
	files(spec.Embeds, "emb")
	files(spec.Attachments, "att")
	c := c10Case{Spec: *spec}
	c.Subject = rapid.SampledFrom(c10Subjects).Draw(t, "subject")
	box := func(label string, i int) c10Box {
		return c10Box{Name: rapid.SampledFrom(c10Names).Draw(t, label+"name"), Addr: fmt.Sprintf("%s%d@verif.example", label, i)}
	}
	c.From = box("from", 0)
	for i := 0; i < rapid.IntRange(1, 3).Draw(t, "nto"); i++ {
		c.To = append(c.To, box("to", i))
	}
	for i := 0; i < rapid.IntRange(0, 2).Draw(t, "ncc"); i++ {
		c.Cc = append(c.Cc, box("cc", i))
	}
	c.DateSec = rapid.Int64Range(0, 4102444800).Draw(t, "date")
	if rapid.IntRange(0, 2).Draw(t, "hasextras") == 0 {
		c.Extras = rapid.SliceOfNDistinct(rapid.SampledFrom([]string{"importance:low", "importance:high", "importance:urgent", "importance:non-urgent", "bulk", "org", "mdn", "custom"}), 1, 3, func(s string) string { return strings.SplitN(s, ":", 2)[0] }).Draw(t, "extras")
	}
	return c
}

func TestC10(t *testing.T) {
	rec := core.Rec("C10")
	rec.Rule = "rapid draws message programs within the parser's feature set (1..3 UTF-8 text/plain or text/html parts, 0..2 embeds, 0..3 attachments; QP/base64/7bit/8bit per message, part and file; 7bit/8bit content made legal: ASCII resp. NUL-free, CRLF breaks, lines <= 900), subjects and display names that need RFC 2047 (incl. long ones), file names over printable Unicode with blanks, ';' and '=', 1..3 To and 0..2 Cc recipients, an explicit date. " +
		"The message is rendered, parsed with EMLToMsgFromReader, compared through the getters (subject after RFC 2047 decoding, From/To/Cc names and mailboxes, date as instant, parts: type/charset/content, files: name/bytes/kind, nothing added), rendered again and read by the independent MIME reader (no duplicated Content-Type/Content-Transfer-Encoding/MIME-Version/Subject/address/Date/Message-ID field in any section, same leaves as the model, same subject). " +
		"Non-trivial: >= 2 leaves or a non-ASCII subject/display name/file name. Distinct by (shape key, subject+name, recipient counts)."
	rec.Assumptions = []string{"a file's declared content type and the transfer encoding chosen for a file are not part of what the property requires to survive", "descriptions and caller-chosen content-ids are outside the parser's feature set and not generated"}
	core.Prop[c10Case]{ID: "C10", Test: "TestC10", Gen: c10Gen, Run: c10Run}.Check(t)
}
