package props

import (
	"bytes"
	"fmt"
	"io"
	"os"
	"path/filepath"
	"strings"
	"testing"

	mail "github.com/wneessen/go-mail"
	"pgregory.net/rapid"

	"verif/harness/core"
	"verif/harness/gen"
)

// C11 — rendering is repeatable and all output paths agree.

type c11Op struct {
	Kind string `json:"kind"` // writeto | write | reader | updatereader | tofile | totmp | failsink | failprod
	K    int    `json:"k,omitempty"`
}

type c11Case struct {
	Spec gen.MsgSpec `json:"spec"`
	Ops  []c11Op     `json:"ops"`
}

func c11Run(c c11Case) []*core.Violation {
	rec := core.Rec("C11")
	b, err := gen.Build(&c.Spec, env)
	if err != nil {
		rec.Skip()
		return nil
	}
	m := b.Msg
	var ref []byte
	refOp := ""
	var rd *mail.Reader
	paths := map[string]bool{}
	failed := false
	for i, op := range c.Ops {
		var out []byte
		var rerr error
		expectFail := false
		switch op.Kind {
		case "writeto":
			var buf bytes.Buffer
			_, rerr = m.WriteTo(&buf)
			out = buf.Bytes()
		case "write":
			var buf bytes.Buffer
			_, rerr = m.Write(&buf)
			out = buf.Bytes()
		case "reader":
			r := m.NewReader()
			rerr = r.Error()
			if rerr == nil {
				out, rerr = io.ReadAll(r)
			}
			rd = r
		case "updatereader":
			if rd == nil {
				rd = m.NewReader()
				_, _ = io.ReadAll(rd)
			}
			m.UpdateReader(rd)
			rerr = rd.Error()
			if rerr == nil {
				out, rerr = io.ReadAll(rd)
			}
		case "tofile":
			p := filepath.Join(env.Dir, fmt.Sprintf("c11-%d.eml", os.Getpid()))
			rerr = m.WriteToFile(p)
			if rerr == nil {
				out, rerr = os.ReadFile(p)
			}
			_ = os.Remove(p)
		case "totmp":
			var p string
			p, rerr = m.WriteToTempFile()
			if rerr == nil {
				out, rerr = os.ReadFile(p)
			}
			if p != "" {
				_ = os.Remove(p)
			}
		case "failsink":
			expectFail = true
			sink := &faultSink{limit: op.K, partial: op.K%2 == 0}
			_, rerr = m.WriteTo(sink)
			if rerr == nil {
				// the offset was beyond the output: it was simply a successful render into a counting sink
				expectFail = false
				out = nil
				failed = false
				continue
			}
		case "failprod":
			expectFail = true
			var buf bytes.Buffer
			*b.Armed = true
			_, rerr = m.WriteTo(&buf)
			*b.Armed = false
		default:
			return []*core.Violation{core.V("HARNESS-badop", "unknown op %q", op.Kind)}
		}
		if expectFail {
			failed = true
			if rerr == nil {
				return []*core.Violation{core.V("HARNESS-fault-not-armed", "op %d (%s) was expected to fail but succeeded", i, op.Kind)}
			}
			continue
		}
		if rerr != nil {
			return []*core.Violation{core.V("render-error", "op %d (%s) failed on a healthy destination: %v (failed render before: %v)", i, op.Kind, rerr, failed)}
		}
		paths[op.Kind] = true
		if ref == nil {
			ref = out
			refOp = fmt.Sprintf("op %d (%s)", i, op.Kind)
			continue
		}
		if !bytes.Equal(ref, out) {
			k := 0
			for k < len(ref) && k < len(out) && ref[k] == out[k] {
				k++
			}
			lo := k - 60
			if lo < 0 {
				lo = 0
			}
			hiA, hiB := k+80, k+80
			if hiA > len(ref) {
				hiA = len(ref)
			}
			if hiB > len(out) {
				hiB = len(out)
			}
			key := "differs"
			if failed {
				key = "differs-after-failed-render"
			}
			return []*core.Violation{core.V(key, "op %d (%s) produced %d bytes, %s produced %d; first difference at byte %d: first=%q now=%q",
				i, op.Kind, len(out), refOp, len(ref), k, ref[lo:hiA], out[lo:hiB])}
		}
	}
	nLeaves := len(c.Spec.Parts) + len(c.Spec.Embeds) + len(c.Spec.Attachments)
	if (len(c.Spec.Embeds)+len(c.Spec.Attachments) >= 1 || len(c.Spec.Parts) >= 2) && (len(paths) >= 2 || failed) {
		var kinds []string
		for _, op := range c.Ops {
			kinds = append(kinds, op.Kind)
		}
		rec.NonTrivial(core.Join(c.Spec.ShapeKey(), strings.Join(kinds, ",")))
		rec.Sample(fmt.Sprintf("%d", nLeaves), map[string]interface{}{"shape": c.Spec.ShapeKey(), "ops": kinds, "bytes": len(ref)})
	}
	for _, op := range c.Ops {
		rec.Class("op:" + op.Kind)
	}
	return nil
}

func c11Gen(t *rapid.T) c11Case {
	o := gen.GenOpts{
		Encodings: []string{"quoted-printable", "base64", "8bit"}, MaxParts: 3, MaxEmbeds: 2, MaxAttach: 3, AllowNoBody: true,
		PartEncs: []string{"", "", "quoted-printable", "base64", "8bit", "7bit"}, FileEncs: []string{"", "base64", "8bit", "7bit", "quoted-printable"},
		Descriptions: true, Chunking: true,
	}
	spec := gen.Program(t, o)
	spec.FixedDate = false // Date and Message-ID are generated on first use
	nPre := rapid.IntRange(0, 3).Draw(t, "npreformatted")
	for i := 0; i < nPre; i++ {
		spec.Headers = append(spec.Headers, gen.HeaderSpec{Name: fmt.Sprintf("X-Pre-%d", i), Values: []string{fmt.Sprintf("preformatted value %d", i)}, Preformat: true})
	}
	nGen := rapid.IntRange(0, 3).Draw(t, "ngeneric")
	for i := 0; i < nGen; i++ {
		spec.Headers = append(spec.Headers, gen.HeaderSpec{Name: fmt.Sprintf("X-Gen-%d", i), Values: []string{fmt.Sprintf("generic value %d", i)}})
	}
	c := c11Case{Spec: *spec}
	nOps := rapid.IntRange(2, 5).Draw(t, "nops")
	// every case renders at least 4 times so that map-order dependent differences show
	kinds := []string{"writeto", "write", "reader", "updatereader", "tofile", "totmp", "failsink", "failprod"}
	usedFailProd := false
	for i := 0; i < nOps; i++ {
		k := rapid.SampledFrom(kinds).Draw(t, "op")
		op := c11Op{Kind: k}
		switch k {
		case "failsink":
			op.K = rapid.IntRange(0, 1500).Draw(t, "sinkoffset")
		case "failprod":
			if usedFailProd {
				op.Kind = "writeto"
				break
			}
			usedFailProd = true
			// arm one producer to fail on exactly this render (invocation i+1 counting every op as one render)
			n := len(c.Spec.Parts) + len(c.Spec.Embeds) + len(c.Spec.Attachments)
			idx := rapid.IntRange(0, n-1).Draw(t, "failleaf")
			var p *gen.Producer
			var content []byte
			switch {
			case idx < len(c.Spec.Parts):
				p, content = &c.Spec.Parts[idx].Prod, c.Spec.Parts[idx].Content
			case idx < len(c.Spec.Parts)+len(c.Spec.Embeds):
				p, content = &c.Spec.Embeds[idx-len(c.Spec.Parts)].Prod, c.Spec.Embeds[idx-len(c.Spec.Parts)].Content
			default:
				j := idx - len(c.Spec.Parts) - len(c.Spec.Embeds)
				p, content = &c.Spec.Attachments[j].Prod, c.Spec.Attachments[j].Content
			}
			p.Fail = true
			p.FailAfter = rapid.IntRange(0, len(content)).Draw(t, "failafter")
			p.WhenArmed = true
		}
		c.Ops = append(c.Ops, op)
	}
	for len(c.Ops) < 4 {
		c.Ops = append(c.Ops, c11Op{Kind: "writeto"})
	}
	return c
}

func TestC11(t *testing.T) {
	rec := core.Rec("C11")
	rec.Rule = "rapid draws a message program (0..3 parts, 0..2 embeds, 0..3 attachments; all file sources incl. read-seekers, files on disk, fs.FS, templates and custom writers; file encodings default/base64/8bit/7bit; 0..3 preformatted and 0..3 generic headers; Date/Message-ID/boundaries left to first use) " +
		"and a history of 4..5 render operations over {WriteTo, Write, NewReader, UpdateReader, WriteToFile, WriteToTempFile, render into a sink failing at a drawn offset, render with one producer failing on exactly that invocation}. " +
		"Oracle: every successful output is byte-identical to the first successful one. Non-trivial: >= 1 file or >= 2 parts, and two different output paths or a failed render in the history; distinct by (shape key, op sequence)."
	rec.Assumptions = []string{"a sink offset beyond the output length is a successful render (not compared)", "Send as an output path is covered by C03's byte comparison, not here"}
	core.Prop[c11Case]{ID: "C11", Test: "TestC11", Gen: c11Gen, Run: c11Run}.Check(t)
}
