package props

import (
	"bytes"
	"context"
	"fmt"
	"io"
	"os"
	"path/filepath"
	"strings"
	"testing"
	"time"

	mail "github.com/wneessen/go-mail"
	"pgregory.net/rapid"

	"verif/harness/core"
	"verif/harness/gen"
	"verif/harness/mimeread"
	"verif/harness/refsmtp"
)

// C11 — rendering is repeatable and all output paths agree.

type c11Op struct {
	Kind string `json:"kind"` // writeto | write | reader | updatereader | tofile | totmp | failsink | failprod
	K    int    `json:"k,omitempty"`
}

type c11Case struct {
	Spec gen.MsgSpec `json:"spec"`
	Ops  []c11Op     `json:"ops"`
	Sign string      `json:"sign,omitempty"` // "" | ecdsa | rsa: S/MIME-signed message
}

// c11Canon maps an output to what has to be identical across renders. Unsigned: the bytes. Signed:
// the top-level fields with the per-render outer boundary masked, plus the signed entity exactly as
// emitted (the outer boundary and the signature legitimately change per render).
func c11Canon(out []byte, signed bool) []byte {
	if !signed {
		return out
	}
	root := mimeread.Parse(out)
	var buf bytes.Buffer
	b := root.Params["boundary"]
	for _, f := range root.Fields {
		v := f.Raw
		if b != "" {
			v = strings.ReplaceAll(v, b, "<outer-boundary>")
		}
		fmt.Fprintf(&buf, "%s: %s\r\n", f.Name, v)
	}
	if len(root.Children) != 2 {
		fmt.Fprintf(&buf, "<%d children>", len(root.Children))
		return buf.Bytes()
	}
	buf.WriteString("<signed entity>\r\n")
	buf.Write(root.Children[0].Raw)
	return buf.Bytes()
}

// c11Transport is what DATA does to a rendering: bare LF becomes CRLF (textproto's dot-writer) and a
// final CRLF is added when missing. Send is compared with the first render modulo exactly this.
func c11Transport(b []byte) []byte {
	return normDATA(b)
}

func c11Run(c c11Case) []*core.Violation {
	rec := core.Rec("C11")
	b, err := gen.Build(&c.Spec, env)
	if err != nil {
		rec.Skip()
		return nil
	}
	m := b.Msg
	signed := c.Sign != ""
	if signed {
		chain := signingChain(c.Sign, false)
		if err := m.SignWithKeypair(chain.Key, chain.Leaf, nil); err != nil {
			return []*core.Violation{core.V("HARNESS-sign", "%v", err)}
		}
	}
	var ref []byte
	refOp := ""
	var sendDialer *refsmtp.Dialer
	var sendClient *mail.Client
	defer func() {
		if sendDialer != nil {
			if sendClient != nil {
				_ = sendClient.Close()
			}
			sendDialer.Shutdown()
		}
	}()
	var rd *mail.Reader
	paths := map[string]bool{}
	failed := false
	nsent := 0
	viaSend := false
	for i, op := range c.Ops {
		var out []byte
		var rerr error
		expectFail := false
		switch op.Kind {
		case "writeto":
			var buf bytes.Buffer
			_, rerr = m.WriteTo(&buf)
			out = buf.Bytes()
		case "write":
			var buf bytes.Buffer
			_, rerr = m.Write(&buf)
			out = buf.Bytes()
		case "reader":
			r := m.NewReader()
			rerr = r.Error()
			if rerr == nil {
				out, rerr = io.ReadAll(r)
			}
			rd = r
		case "readercopy":
			// a consumer that reads a prefix with Read and hands the rest to io.Copy (which prefers an
			// io.WriterTo if the Reader has one), the way net/mail.ReadMessage + io.Copy(dst, m.Body) does
			r := m.NewReader()
			rerr = r.Error()
			if rerr == nil {
				prefix := make([]byte, op.K)
				n, perr := io.ReadFull(r, prefix)
				if perr != nil && perr != io.EOF && perr != io.ErrUnexpectedEOF {
					rerr = perr
				} else {
					var rest bytes.Buffer
					_, rerr = io.Copy(&rest, r)
					out = append(prefix[:n], rest.Bytes()...)
				}
			}
			rd = r
		case "updatereader":
			if rd == nil {
				rd = m.NewReader()
				_, _ = io.ReadAll(rd)
			}
			m.UpdateReader(rd)
			rerr = rd.Error()
			if rerr == nil {
				out, rerr = io.ReadAll(rd)
			}
		case "partialupdate":
			// a reader that was only partly consumed (no EOF seen) is updated and must start over
			r := m.NewReader()
			rerr = r.Error()
			if rerr == nil {
				buf := make([]byte, op.K+1)
				_, _ = io.ReadFull(r, buf)
				m.UpdateReader(r)
				rerr = r.Error()
				if rerr == nil {
					out, rerr = io.ReadAll(r)
				}
			}
		case "tofile":
			p := filepath.Join(env.Dir, fmt.Sprintf("c11-%d.eml", os.Getpid()))
			if op.K > 0 {
				// the target exists already and is LONGER than the message (an earlier, bigger mail was
				// written to the same path): WriteToFile replaces it
				_ = os.WriteFile(p, bytes.Repeat([]byte("old content of the file\r\n"), op.K), 0o600)
			}
			rerr = m.WriteToFile(p)
			if rerr == nil {
				out, rerr = os.ReadFile(p)
			}
			_ = os.Remove(p)
		case "totmp":
			var p string
			p, rerr = m.WriteToTempFile()
			if rerr == nil {
				out, rerr = os.ReadFile(p)
			}
			if p != "" {
				_ = os.Remove(p)
			}
		case "send":
			if sendDialer == nil {
				srv := refsmtp.NewServer(refsmtp.Script{Caps: []string{"8BITMIME", "SMTPUTF8"}, NoGreetProbe: true})
				sendDialer = &refsmtp.Dialer{Srv: srv}
				cfg := smtpCfg{TLS: "none"}
				cl, cerr := mail.NewClient(refHost, cfg.options(sendDialer)...)
				if cerr != nil {
					return []*core.Violation{core.V("HARNESS-newclient", "%v", cerr)}
				}
				if derr := cl.DialWithContext(context.Background()); derr != nil {
					return []*core.Violation{core.V("HARNESS-dial", "%v", derr)}
				}
				sendClient = cl
			}
			r := watchdog(20*time.Second, sendDialer, func() error { return sendClient.Send(m) })
			if r.TimedOut || r.Panic != nil {
				return []*core.Violation{core.V("HARNESS-send", "send op: timed out=%v panic=%v", r.TimedOut, r.Panic)}
			}
			rerr = r.Err
			if rerr == nil {
				// the server goroutine appends the transaction before it answers end-of-data
				sess := sendDialer.Sessions[0]
				nsent++
				out = nil
				deadline := time.Now().Add(2 * time.Second)
				for time.Now().Before(deadline) {
					if cs := sessCommits(sess); len(cs) >= nsent {
						out = cs[nsent-1]
						break
					}
					time.Sleep(time.Millisecond)
				}
				if out == nil {
					return []*core.Violation{core.V("HARNESS-send", "no commit visible after a successful Send")}
				}
				viaSend = true
			}
		case "reuse":
			// no render: the caller goes on using the readers/buffers it once handed to Attach*/Embed*
			b.CallerReuse()
			rec.Class("caller-reuses-its-buffers-between-renders")
			continue
		case "failsink":
			expectFail = true
			sink := &faultSink{limit: op.K, partial: op.K%2 == 0}
			_, rerr = m.WriteTo(sink)
			if rerr == nil {
				// the offset was beyond the output: it was simply a successful render into a counting sink
				expectFail = false
				out = nil
				failed = false
				continue
			}
		case "failprod":
			expectFail = true
			var buf bytes.Buffer
			*b.Armed = true
			_, rerr = m.WriteTo(&buf)
			*b.Armed = false
		default:
			return []*core.Violation{core.V("HARNESS-badop", "unknown op %q", op.Kind)}
		}
		if expectFail {
			failed = true
			if rerr == nil {
				// a render whose producer failed reported success: that is C12's subject (and its
				// output is not a rendering of the message), so it is not compared here
				rec.AddExtra("failed_producer_reported_success", 1)
			}
			continue
		}
		if rerr != nil {
			return []*core.Violation{core.V("render-error", "op %d (%s) failed on a healthy destination: %v (failed render before: %v)", i, op.Kind, rerr, failed)}
		}
		paths[op.Kind] = true
		out = c11Canon(out, signed)
		if ref == nil {
			if viaSend {
				// a transmitted copy cannot serve as the reference (transport normalisation is lossy)
				viaSend = false
				continue
			}
			ref = out
			refOp = fmt.Sprintf("op %d (%s)", i, op.Kind)
			continue
		}
		want := ref
		if viaSend {
			viaSend = false
			if !signed {
				want = c11Transport(ref)
			}
		}
		if !bytes.Equal(want, out) {
			ref := want
			k := 0
			for k < len(ref) && k < len(out) && ref[k] == out[k] {
				k++
			}
			lo := k - 60
			if lo < 0 {
				lo = 0
			}
			hiA, hiB := k+80, k+80
			if hiA > len(ref) {
				hiA = len(ref)
			}
			if hiB > len(out) {
				hiB = len(out)
			}
			key := "differs"
			if failed {
				key = "differs-after-failed-render"
			}
			return []*core.Violation{core.V(key, "op %d (%s) produced %d bytes, %s produced %d; first difference at byte %d: first=%q now=%q",
				i, op.Kind, len(out), refOp, len(ref), k, ref[lo:hiA], out[lo:hiB])}
		}
	}
	nLeaves := len(c.Spec.Parts) + len(c.Spec.Embeds) + len(c.Spec.Attachments)
	if (len(c.Spec.Embeds)+len(c.Spec.Attachments) >= 1 || len(c.Spec.Parts) >= 2) && (len(paths) >= 2 || failed) {
		var kinds []string
		for _, op := range c.Ops {
			kinds = append(kinds, op.Kind)
		}
		rec.NonTrivial(core.Join(c.Spec.ShapeKey(), strings.Join(kinds, ",")))
		rec.Sample(fmt.Sprintf("%d", nLeaves), map[string]interface{}{"shape": c.Spec.ShapeKey(), "ops": kinds, "bytes": len(ref)})
	}
	for _, op := range c.Ops {
		rec.Class("op:" + op.Kind)
	}
	return nil
}

func c11Gen(t *rapid.T) c11Case {
	o := gen.GenOpts{
		Boundaries: true,
		Encodings:  []string{"quoted-printable", "base64", "8bit"}, MaxParts: 3, MaxEmbeds: 2, MaxAttach: 3, AllowNoBody: true,
		PartEncs: []string{"", "", "quoted-printable", "base64", "8bit", "7bit"}, FileEncs: []string{"", "base64", "8bit", "7bit", "quoted-printable"},
		Descriptions: true, Chunking: true,
		Sources: []string{"reader", "readseeker", "file", "iofs", "texttpl", "htmltpl", "writer", "reader-pos", "reader-drain", "buffer-reuse", "readseeker-pos"},
	}
	sign := ""
	mw := ""
	if rapid.IntRange(0, 5).Draw(t, "middleware") == 0 {
		mw = rapid.SampledFrom([]string{"body", "subject"}).Draw(t, "mwkind")
	}
	if rapid.IntRange(0, 4).Draw(t, "signed") == 0 {
		sign = rapid.SampledFrom([]string{"ecdsa", "ecdsa", "rsa"}).Draw(t, "signkey")
		o.CRLFOnly = true // canonical content, so that DATA only adds the final CRLF outside the signed entity
		o.FileEncs = []string{"", "base64", "8bit"}
		o.PartEncs = []string{"", "", "quoted-printable", "base64", "8bit"}
	}
	spec := gen.Program(t, o)
	spec.FixedDate = false // Date and Message-ID are generated on first use
	nPre := rapid.IntRange(0, 3).Draw(t, "npreformatted")
	for i := 0; i < nPre; i++ {
		spec.Headers = append(spec.Headers, gen.HeaderSpec{Name: fmt.Sprintf("X-Pre-%d", i), Values: []string{fmt.Sprintf("preformatted value %d", i)}, Preformat: true})
	}
	nGen := rapid.IntRange(0, 3).Draw(t, "ngeneric")
	for i := 0; i < nGen; i++ {
		spec.Headers = append(spec.Headers, gen.HeaderSpec{Name: fmt.Sprintf("X-Gen-%d", i), Values: []string{fmt.Sprintf("generic value %d", i)}})
	}
	if len(spec.Parts) > 0 {
		spec.Middleware = mw // a middleware that rewrites the first body part / the subject on EVERY render
	}
	c := c11Case{Spec: *spec, Sign: sign}
	nOps := rapid.IntRange(2, 5).Draw(t, "nops")
	// every case renders at least 4 times so that map-order dependent differences show
	kinds := []string{"writeto", "write", "reader", "readercopy", "updatereader", "partialupdate", "tofile", "totmp", "failsink", "failprod", "send", "send", "reuse"}
	usedFailProd := false
	for i := 0; i < nOps; i++ {
		k := rapid.SampledFrom(kinds).Draw(t, "op")
		op := c11Op{Kind: k}
		switch k {
		case "failsink":
			op.K = rapid.IntRange(0, 1500).Draw(t, "sinkoffset")
		case "partialupdate":
			op.K = rapid.SampledFrom([]int{0, 1, 15, 100, 400, 1000, 5000}).Draw(t, "partialread")
		case "readercopy":
			op.K = rapid.SampledFrom([]int{1, 15, 100, 512, 4096}).Draw(t, "readprefix")
		case "tofile":
			op.K = rapid.SampledFrom([]int{0, 0, 1, 40, 4000}).Draw(t, "existingfile")
		case "failprod":
			if usedFailProd {
				op.Kind = "writeto"
				break
			}
			usedFailProd = true
			// arm one producer to fail on exactly this render (invocation i+1 counting every op as one render)
			n := len(c.Spec.Parts) + len(c.Spec.Embeds) + len(c.Spec.Attachments)
			idx := rapid.IntRange(0, n-1).Draw(t, "failleaf")
			var p *gen.Producer
			var content []byte
			switch {
			case idx < len(c.Spec.Parts):
				p, content = &c.Spec.Parts[idx].Prod, c.Spec.Parts[idx].Content
			case idx < len(c.Spec.Parts)+len(c.Spec.Embeds):
				p, content = &c.Spec.Embeds[idx-len(c.Spec.Parts)].Prod, c.Spec.Embeds[idx-len(c.Spec.Parts)].Content
			default:
				j := idx - len(c.Spec.Parts) - len(c.Spec.Embeds)
				p, content = &c.Spec.Attachments[j].Prod, c.Spec.Attachments[j].Content
			}
			p.Fail = true
			p.FailAfter = rapid.IntRange(0, len(content)).Draw(t, "failafter")
			p.WhenArmed = true
			gen.FaultFlavour(t, &c.Spec, idx, false)
		}
		c.Ops = append(c.Ops, op)
	}
	for len(c.Ops) < 4 {
		c.Ops = append(c.Ops, c11Op{Kind: "writeto"})
	}
	return c
}

func TestC11(t *testing.T) {
	rec := core.Rec("C11")
	rec.Rule = "rapid draws a message program (0..3 parts, 0..2 embeds, 0..3 attachments; all file sources incl. read-seekers, files on disk, fs.FS, templates and custom writers; file encodings default/base64/8bit/7bit; 0..3 preformatted and 0..3 generic headers; Date/Message-ID/boundaries left to first use; one program in six carries a middleware that rewrites the first body part or the subject on every render) " +
		"and a history of 4..5 render operations over {WriteTo, Write, NewReader (read to the end, or a prefix through Read and the rest through io.Copy), UpdateReader (also of a reader that was only partly read), WriteToFile (also onto an existing, longer file), WriteToTempFile, Send to the reference server (payload after dot-unstuffing), render into a sink failing at a drawn offset, render with one producer failing on exactly that invocation}; one history in five is S/MIME-signed (ECDSA or RSA). " +
		"Oracle: every successful output is byte-identical to the first successful one (Send: modulo what DATA does to any content, bare LF -> CRLF and a final CRLF; signed messages: identical top-level fields with the per-render outer boundary masked and an identical signed entity). Non-trivial: >= 1 file or >= 2 parts, and two different output paths or a failed render in the history; distinct by (shape key, op sequence)."
	rec.Assumptions = []string{"a sink offset beyond the output length is a successful render (not compared)", "a transmitted copy is never used as the reference (transport normalisation is lossy)", "signed histories use canonical CRLF content"}
	core.Prop[c11Case]{ID: "C11", Test: "TestC11", Gen: c11Gen, Run: c11Run}.Check(t)
}

// sessCommits returns the payloads committed so far (the server goroutine appends a transaction
// before it answers end-of-data, so after a successful Send the commit is there).
func sessCommits(s *refsmtp.Session) [][]byte {
	var out [][]byte
	for _, t := range s.TxnsSnapshot() {
		if t.Committed {
			out = append(out, t.Payload)
		}
	}
	return out
}
