package props

import (
	"bytes"
	"fmt"
	mail "github.com/wneessen/go-mail"
	"strings"
	"testing"

	"pgregory.net/rapid"

	"verif/harness/core"
	"verif/harness/gen"
	"verif/harness/mimeread"
	"verif/harness/oracle"
)

// C01 — rendered MIME carries exactly the content the caller supplied.

type c01Case struct {
	Spec gen.MsgSpec `json:"spec"`
	// PriorFail > 0: before this message is rendered, ANOTHER message (a twin built from the same
	// program) was rendered in this process into a destination that failed after that many bytes.
	PriorFail int `json:"prior_fail,omitempty"`
	// Reencode > 0: after the (verified) render the caller changes the transfer encoding of body part
	// number Reencode through Part.SetEncoding and renders again; the second rendering is judged like
	// the first, against the new encoding.
	Reencode int `json:"reencode,omitempty"`
}

func c01Run(c c01Case) []*core.Violation {
	rec := core.Rec("C01")
	b, err := gen.Build(&c.Spec, env)
	if err != nil {
		rec.Skip()
		return nil
	}
	if c.PriorFail > 0 {
		if twin, terr := gen.Build(&c.Spec, env); terr == nil {
			_, _ = twin.Msg.WriteTo(&faultSink{limit: c.PriorFail, partial: true})
			rec.Class("after-a-failed-render-of-another-message")
		}
	}
	var buf bytes.Buffer
	n, err := b.Msg.WriteTo(&buf)
	if err != nil {
		return []*core.Violation{core.V("render-error", "WriteTo failed on a healthy buffer: %v", err)}
	}
	var vs []*core.Violation
	if int(n) != buf.Len() {
		vs = append(vs, core.V("count", "WriteTo returned %d, output has %d bytes", n, buf.Len()))
	}
	root := mimeread.Parse(buf.Bytes())
	np, ne, na := len(c.Spec.Parts), len(c.Spec.Embeds), len(c.Spec.Attachments)
	lv := oracle.CompareLeaves(root, b.Leaves, np, ne, na, oracle.LeafOpts{NoDesc: true})
	vs = append(vs, lv...)
	if len(lv) == 0 {
		if d := oracle.CrossCheck(root, buf.Bytes()); d != "" {
			rec.AddExtra("crosscheck_disagreements", 1)
			return []*core.Violation{core.V("HARNESS-crosscheck", "%s", d)}
		}
		rec.AddExtra("crosscheck_agreements", 1)
	}
	if c.Reencode > 0 && c.Reencode <= np && len(vs) == 0 {
		parts := b.Msg.GetParts()
		if len(parts) >= c.Reencode {
			k := c.Reencode - 1
			newEnc := "base64"
			if b.Leaves[k].CTE == "base64" {
				newEnc = "8bit"
			}
			if newEnc == "base64" {
				parts[k].SetEncoding(mail.EncodingB64)
			} else {
				parts[k].SetEncoding(mail.NoEncoding)
			}
			leaves2 := append([]gen.Leaf{}, b.Leaves...)
			leaves2[k].CTE = newEnc
			var buf2 bytes.Buffer
			if _, err := b.Msg.WriteTo(&buf2); err != nil {
				return []*core.Violation{core.V("render-error", "second render (after SetEncoding on part %d) failed: %v", c.Reencode, err)}
			}
			for _, v := range oracle.CompareLeaves(mimeread.Parse(buf2.Bytes()), leaves2, np, ne, na, oracle.LeafOpts{NoDesc: true}) {
				v.Msg = fmt.Sprintf("after Part.SetEncoding(%s) on part %d and a second render: %s", newEnc, c.Reencode, v.Msg)
				vs = append(vs, v)
			}
			rec.Class("re-encoded-between-two-renders")
		}
	}
	// evidence
	shape := fmt.Sprintf("p%d/e%d/a%d", np, ne, na)
	rec.Class("shape:" + gen.ExpectedShape(np, ne, na))
	nt := np+ne+na >= 2
	for _, l := range b.Leaves {
		rec.Class("cte:" + l.CTE)
		for _, cl := range gen.ContentClasses(l.Content) {
			rec.Class("content:" + cl)
		}
		if gen.NeedsTransform(l.Content, l.CTE) {
			nt = true
		}
	}
	if nt {
		rec.NonTrivial(c.Spec.ShapeKey())
		rec.Sample(shape, map[string]interface{}{"shape": gen.ExpectedShape(np, ne, na), "key": c.Spec.ShapeKey(), "output_bytes": buf.Len()})
	}
	return vs
}

func c01Opts() gen.GenOpts {
	return gen.GenOpts{
		Encodings: []string{"quoted-printable", "base64", "8bit"}, MaxParts: 4, MaxEmbeds: 3, MaxAttach: 3, AllowNoBody: true,
		PartEncs: []string{"", "", "quoted-printable", "base64", "8bit"}, FileEncs: []string{"", "", "base64", "8bit", "quoted-printable"},
		Descriptions: true, TextOnlyQP: true, Chunking: true, Boundaries: true,
	}
}

func c01Gen(t *rapid.T) c01Case {
	c := c01Case{Spec: *gen.Program(t, c01Opts())}
	if len(c.Spec.Parts) > 0 && rapid.IntRange(0, 5).Draw(t, "reencode") == 0 {
		c.Reencode = rapid.IntRange(1, len(c.Spec.Parts)).Draw(t, "reencodepart")
	}
	if rapid.IntRange(0, 5).Draw(t, "priorfail") == 0 {
		c.PriorFail = rapid.IntRange(1, 4000).Draw(t, "priorfailat")
	}
	return c
}

func c01Describe() {
	rec := core.Rec("C01")
	rec.Rule = "message programs drawn by rapid: message encoding in {QP, base64, 8bit}; 0..4 body parts/alternatives (string, writer, text and HTML template setters; per-part encoding, charset, description), " +
		"0..3 embeds and 0..3 attachments from every file source (reader, read-seeker, file on disk, fs.FS, templates, custom File.Writer) with per-file encoding/content type/description/content-id; contents from labelled byte classes " +
		"(CRLF/LF/lone-CR line breaks, '=' runs, leading dots, trailing blanks, boundary-like lines, lines of 72..80/150/998..1001 columns, UTF-8 straddling column 76, arbitrary binary, sizes around 57n and 76n, empty). " +
		"One case in six changes the transfer encoding of a body part through Part.SetEncoding after the first render and renders again (judged against the new encoding). One case in six is rendered after another message (a twin of the same program) failed to render into a destination that broke after 1..4000 bytes. Oracle: own RFC 5322/2045/2046/2047 reader on WriteTo's output: leaf list == model in order (type, charset, CTE, disposition, file name, decoded bytes; QP modulo LF->CRLF), nesting shape, boundaries, count; cross-checked with net/mail + mime/multipart. " +
		"Non-trivial: >= 2 leaves, or a leaf whose content contains a byte its CTE must transform. Distinct by (message encoding, per-leaf type/encoding/content-class set)."
	rec.Assumptions = []string{"quoted-printable text parts are generated with CRLF/LF line breaks only (lone CR is outside the statement's domain for QP text)",
		"a caller-chosen boundary is generated only for programs with exactly one multipart level (the documented domain of WithBoundary)", "the host's MIME table may pick any syntactically valid type for files without a declared content type"}
}

func TestC01(t *testing.T) {
	c01Describe()
	core.Prop[c01Case]{ID: "C01", Test: "TestC01", Gen: c01Gen, Run: c01Run}.Check(t)
}

// TestC01Enum enumerates every small shape tuple (parts 0..3, embeds 0..3, attachments 0..3) for
// each message encoding with three fixed content classes. The space is finite and fully covered.
func TestC01Enum(t *testing.T) {
	if core.ReplayArg != "" {
		t.Skip()
	}
	c01Describe()
	p := core.Prop[c01Case]{ID: "C01", Test: "TestC01", Run: c01Run}
	contents := [][]byte{
		[]byte("plain ascii line\r\n"),
		[]byte("=3D caf\xc3\xa9 trailing \r\n.\r\n..dot\r\n--boundary-like\r\n" + strings.Repeat("x", 80) + "\r\nlast line without eol"),
		bytes.Repeat([]byte{0x00, 0xff, '\r', '\n', '=', '.'}, 20),
	}
	idx := 0
	for _, enc := range []string{"quoted-printable", "base64", "8bit"} {
		for np := 0; np <= 3; np++ {
			for ne := 0; ne <= 3; ne++ {
				for na := 0; na <= 3; na++ {
					if np+ne+na == 0 {
						continue
					}
					for ci, content := range contents {
						idx++
						if idx%core.Shards != core.Shard {
							continue
						}
						spec := gen.MsgSpec{Encoding: enc, FixedDate: true, From: "sender@verif.example", To: []string{"rcpt@verif.example"}}
						for i := 0; i < np; i++ {
							ct := "text/plain"
							if i%2 == 1 {
								ct = "text/html"
							}
							pc := content
							if enc == "quoted-printable" && ci == 2 {
								pc = []byte("line one\nline two =\n\tTabbed \n")
							}
							spec.Parts = append(spec.Parts, gen.PartSpec{CType: ct, Content: pc, Via: "string"})
						}
						for i := 0; i < ne; i++ {
							spec.Embeds = append(spec.Embeds, gen.FileSpec{Name: fmt.Sprintf("embed%d.png", i), Content: content, Source: "reader"})
						}
						for i := 0; i < na; i++ {
							spec.Attachments = append(spec.Attachments, gen.FileSpec{Name: fmt.Sprintf("attach%d.bin", i), Content: content, Source: "readseeker"})
						}
						core.Rec("C01").AddExtra("enumerated_shape_cases", 1)
						if v := p.RunOne(c01Case{Spec: spec}); v != nil {
							t.Fatalf("VIOLATION-DETAIL property=C01 %s", v)
						}
					}
				}
			}
		}
	}
}
