package props

import (
	"bytes"
	"fmt"
	mail "github.com/wneessen/go-mail"
	"io"
	"strings"
	"testing"

	"pgregory.net/rapid"

	"verif/harness/core"
	"verif/harness/gen"
	"verif/harness/mimeread"
	"verif/harness/oracle"
)

// C01 — rendered MIME carries exactly the content the caller supplied.

type c01Case struct {
	Spec gen.MsgSpec `json:"spec"`
	// PriorFail > 0: before this message is rendered, ANOTHER message (a twin built from the same
	// program) was rendered in this process into a destination that failed after that many bytes.
	PriorFail int `json:"prior_fail,omitempty"`
	// Reencode > 0: after the (verified) render the caller changes the transfer encoding of body part
	// number Reencode through Part.SetEncoding and renders again; the second rendering is judged like
	// the first, against the new encoding.
	Reencode int `json:"reencode,omitempty"`
	// Edits: builder calls that change what was added earlier (the lists of files, single parts) made
	// after the program ran and before the first render; the model follows every edit.
	Edits []c01Edit `json:"edits,omitempty"`
	// Twice: the message is rendered a second time and the second rendering is judged as well.
	Twice bool `json:"twice,omitempty"`
}

// c01Edit is one call of UnsetAllAttachments / UnsetAllEmbeds / UnsetAllParts / SetAttachments /
// SetEmbeds (with a permutation or a sub-list of what GetAttachments / GetEmbeds hand out),
// Part.Delete / SetContentType / SetCharset / SetContent / SetWriteFunc on a part handed out by GetParts,
// or Msg.SetBoundary.
type c01Edit struct {
	Kind string `json:"kind"`
	Idx  int    `json:"idx,omitempty"`
	Arg  string `json:"arg,omitempty"`
}

// applyEdits performs the edits on the message and on the model; it reports false when an edit does not
// fit the message (the case is skipped) or nothing would be left to render.
func applyEdits(b *gen.Built, edits []c01Edit, msgCharset string) bool {
	kindRange := func(kind string) (int, int) {
		lo, hi := -1, -1
		for i, l := range b.Leaves {
			if l.Kind == kind {
				if lo < 0 {
					lo = i
				}
				hi = i + 1
			}
		}
		if lo < 0 {
			return 0, 0
		}
		return lo, hi
	}
	// entries of GetParts() that were deleted by an earlier edit (the library keeps them in the list)
	deleted := map[int]bool{}
	for _, e := range edits {
		m := b.Msg
		switch e.Kind {
		case "unset-attachments", "unset-embeds", "unset-files":
			if e.Kind != "unset-embeds" {
				m.UnsetAllAttachments()
			}
			if e.Kind != "unset-attachments" {
				m.UnsetAllEmbeds()
			}
			if e.Kind == "unset-files" {
				m.UnsetAllAttachments()
				m.UnsetAllEmbeds()
				m.UnsetAllParts()
			}
			kept := b.Leaves[:0:0]
			for _, l := range b.Leaves {
				if l.Kind == "attach" && e.Kind != "unset-embeds" || l.Kind == "embed" && e.Kind != "unset-attachments" {
					continue
				}
				kept = append(kept, l)
			}
			b.Leaves = kept
		case "reverse-attachments", "reverse-embeds", "drop-first-attachment", "drop-last-embed":
			kind := "attach"
			if strings.HasSuffix(e.Kind, "embeds") || strings.HasSuffix(e.Kind, "embed") {
				kind = "embed"
			}
			lo, hi := kindRange(kind)
			if hi-lo < 1 {
				return false
			}
			var files []*mail.File
			if kind == "attach" {
				files = m.GetAttachments()
			} else {
				files = m.GetEmbeds()
			}
			if len(files) != hi-lo {
				return false
			}
			nf := append([]*mail.File{}, files...)
			nl := append([]gen.Leaf{}, b.Leaves[lo:hi]...)
			switch {
			case strings.HasPrefix(e.Kind, "reverse"):
				for i, j := 0, len(nf)-1; i < j; i, j = i+1, j-1 {
					nf[i], nf[j] = nf[j], nf[i]
					nl[i], nl[j] = nl[j], nl[i]
				}
			case e.Kind == "drop-first-attachment":
				nf, nl = nf[1:], nl[1:]
			default:
				nf, nl = nf[:len(nf)-1], nl[:len(nl)-1]
			}
			if kind == "attach" {
				m.SetAttachments(nf)
			} else {
				m.SetEmbeds(nf)
			}
			b.Leaves = append(append(append([]gen.Leaf{}, b.Leaves[:lo]...), nl...), b.Leaves[hi:]...)
		case "part-delete", "part-ctype", "part-charset", "part-content", "part-writefunc":
			lo, hi := kindRange("part")
			if e.Idx < 0 || e.Idx >= hi-lo {
				return false
			}
			parts := m.GetParts()
			// GetParts hands out every part ever added, deleted ones included: find the e.Idx-th live one
			pi, seen := -1, 0
			for i := 0; i < len(parts); i++ {
				if deleted[i] {
					continue
				}
				if seen == e.Idx {
					pi = i
					break
				}
				seen++
			}
			if pi < 0 {
				return false
			}
			l := &b.Leaves[lo+e.Idx]
			switch e.Kind {
			case "part-delete":
				parts[pi].Delete()
				deleted[pi] = true
				b.Leaves = append(append([]gen.Leaf{}, b.Leaves[:lo+e.Idx]...), b.Leaves[lo+e.Idx+1:]...)
			case "part-ctype":
				parts[pi].SetContentType(mail.ContentType(e.Arg))
				// a media type may come with parameters of its own: the leaf's type is what precedes them
				l.MediaType = strings.TrimSpace(strings.SplitN(e.Arg, ";", 2)[0])
			case "part-charset":
				parts[pi].SetCharset(mail.Charset(e.Arg))
				l.Charset = e.Arg
				if e.Arg == "" {
					// a part without a charset of its own is labelled with the message's
					l.Charset = msgCharset
					if l.Charset == "" {
						l.Charset = "UTF-8"
					}
				}
			case "part-content":
				parts[pi].SetContent(e.Arg)
				l.Content = []byte(e.Arg)
			case "part-writefunc":
				content := []byte(e.Arg)
				parts[pi].SetWriteFunc(func(w io.Writer) (int64, error) {
					n, err := w.Write(content)
					return int64(n), err
				})
				l.Content = content
			}
		case "set-boundary":
			m.SetBoundary(e.Arg)
		default:
			return false
		}
	}
	return len(b.Leaves) > 0
}

func leafCounts(ls []gen.Leaf) (np, ne, na int) {
	for _, l := range ls {
		switch l.Kind {
		case "part":
			np++
		case "embed":
			ne++
		default:
			na++
		}
	}
	return
}

func c01Run(c c01Case) []*core.Violation {
	rec := core.Rec("C01")
	b, err := gen.Build(&c.Spec, env)
	if err != nil {
		rec.Skip()
		return nil
	}
	if c.PriorFail > 0 {
		if twin, terr := gen.Build(&c.Spec, env); terr == nil {
			_, _ = twin.Msg.WriteTo(&faultSink{limit: c.PriorFail, partial: true})
			rec.Class("after-a-failed-render-of-another-message")
		}
	}
	if len(c.Edits) > 0 {
		if !applyEdits(b, c.Edits, c.Spec.Charset) {
			rec.Skip()
			return nil
		}
		rec.Class("edited-after-building")
		for _, e := range c.Edits {
			rec.Class("edit:" + e.Kind)
		}
	}
	var buf bytes.Buffer
	n, err := b.Msg.WriteTo(&buf)
	if err != nil {
		return []*core.Violation{core.V("render-error", "WriteTo failed on a healthy buffer: %v", err)}
	}
	var vs []*core.Violation
	if int(n) != buf.Len() {
		vs = append(vs, core.V("count", "WriteTo returned %d, output has %d bytes", n, buf.Len()))
	}
	root := mimeread.Parse(buf.Bytes())
	np, ne, na := leafCounts(b.Leaves)
	lv := oracle.CompareLeaves(root, b.Leaves, np, ne, na, oracle.LeafOpts{NoDesc: true})
	vs = append(vs, lv...)
	if len(lv) == 0 {
		if d := oracle.CrossCheck(root, buf.Bytes()); d != "" {
			rec.AddExtra("crosscheck_disagreements", 1)
			return []*core.Violation{core.V("HARNESS-crosscheck", "%s", d)}
		}
		rec.AddExtra("crosscheck_agreements", 1)
	}
	if c.Reencode > 0 && c.Reencode <= np && len(vs) == 0 {
		parts := b.Msg.GetParts()
		if len(parts) >= c.Reencode {
			k := c.Reencode - 1
			newEnc := "base64"
			if b.Leaves[k].CTE == "base64" {
				newEnc = "8bit"
			}
			if newEnc == "base64" {
				parts[k].SetEncoding(mail.EncodingB64)
			} else {
				parts[k].SetEncoding(mail.NoEncoding)
			}
			leaves2 := append([]gen.Leaf{}, b.Leaves...)
			leaves2[k].CTE = newEnc
			var buf2 bytes.Buffer
			if _, err := b.Msg.WriteTo(&buf2); err != nil {
				return []*core.Violation{core.V("render-error", "second render (after SetEncoding on part %d) failed: %v", c.Reencode, err)}
			}
			for _, v := range oracle.CompareLeaves(mimeread.Parse(buf2.Bytes()), leaves2, np, ne, na, oracle.LeafOpts{NoDesc: true}) {
				v.Msg = fmt.Sprintf("after Part.SetEncoding(%s) on part %d and a second render: %s", newEnc, c.Reencode, v.Msg)
				vs = append(vs, v)
			}
			rec.Class("re-encoded-between-two-renders")
		}
	}
	if c.Twice && c.Reencode == 0 && len(vs) == 0 {
		// the same message rendered once more (a retry, WriteToFile followed by Send): judged like the first
		var buf2 bytes.Buffer
		if _, err := b.Msg.WriteTo(&buf2); err != nil {
			return []*core.Violation{core.V("render-error", "second render failed on a healthy buffer: %v", err)}
		}
		for _, v := range oracle.CompareLeaves(mimeread.Parse(buf2.Bytes()), b.Leaves, np, ne, na, oracle.LeafOpts{NoDesc: true}) {
			v.Msg = "second render of the same message: " + v.Msg
			vs = append(vs, v)
		}
		rec.Class("rendered-twice")
	}
	// evidence
	shape := fmt.Sprintf("p%d/e%d/a%d", np, ne, na)
	rec.Class("shape:" + gen.ExpectedShape(np, ne, na))
	if c.Spec.Charset != "" {
		rec.Class("message-charset:" + c.Spec.Charset)
	}
	for _, f := range append(append([]gen.FileSpec{}, c.Spec.Embeds...), c.Spec.Attachments...) {
		rec.Class("source:" + f.Source)
	}
	nt := np+ne+na >= 2
	for _, l := range b.Leaves {
		rec.Class("cte:" + l.CTE)
		for _, cl := range gen.ContentClasses(l.Content) {
			rec.Class("content:" + cl)
		}
		if gen.NeedsTransform(l.Content, l.CTE) {
			nt = true
		}
	}
	if nt {
		rec.NonTrivial(c.Spec.ShapeKey())
		rec.Sample(shape, map[string]interface{}{"shape": gen.ExpectedShape(np, ne, na), "key": c.Spec.ShapeKey(), "output_bytes": buf.Len()})
	}
	return vs
}

func c01Opts() gen.GenOpts {
	return gen.GenOpts{
		Encodings: []string{"quoted-printable", "base64", "8bit"}, MaxParts: 4, MaxEmbeds: 3, MaxAttach: 3, AllowNoBody: true,
		PartEncs: []string{"", "", "quoted-printable", "base64", "8bit"}, FileEncs: []string{"", "", "base64", "8bit", "quoted-printable"},
		Descriptions: true, TextOnlyQP: true, Chunking: true, Boundaries: true, MsgCharsets: true,
	}
}

func c01Gen(t *rapid.T) c01Case {
	c := c01Case{Spec: *gen.Program(t, c01Opts())}
	if len(c.Spec.Parts) > 0 && rapid.IntRange(0, 5).Draw(t, "reencode") == 0 {
		c.Reencode = rapid.IntRange(1, len(c.Spec.Parts)).Draw(t, "reencodepart")
	}
	if rapid.IntRange(0, 5).Draw(t, "priorfail") == 0 {
		c.PriorFail = rapid.IntRange(1, 4000).Draw(t, "priorfailat")
	}
	c.Twice = rapid.IntRange(0, 3).Draw(t, "twice") == 0
	if c.Reencode == 0 && rapid.IntRange(0, 3).Draw(t, "edited") == 0 {
		c.Edits = c01GenEdits(t, &c.Spec)
	}
	return c
}

// c01GenEdits draws 1..3 edits that fit the program. Contents and types set through the Part setters come
// from a small pool that is legal under every transfer encoding C01 generates for text.
func c01GenEdits(t *rapid.T, spec *gen.MsgSpec) []c01Edit {
	np, ne, na := len(spec.Parts), len(spec.Embeds), len(spec.Attachments)
	var out []c01Edit
	n := rapid.IntRange(1, 3).Draw(t, "nedits")
	for i := 0; i < n; i++ {
		var kinds []string
		if na > 0 {
			kinds = append(kinds, "reverse-attachments", "drop-first-attachment")
			if np+ne > 0 {
				kinds = append(kinds, "unset-attachments")
			}
		}
		if ne > 0 {
			kinds = append(kinds, "reverse-embeds", "drop-last-embed")
			if np+na > 0 {
				kinds = append(kinds, "unset-embeds")
			}
		}
		if np > 0 && ne+na > 0 {
			kinds = append(kinds, "unset-files")
		}
		if np > 0 {
			kinds = append(kinds, "part-ctype", "part-charset", "part-content", "part-writefunc")
			if np+ne+na > 1 {
				kinds = append(kinds, "part-delete")
			}
		}
		if len(kinds) == 0 {
			break
		}
		e := c01Edit{Kind: rapid.SampledFrom(kinds).Draw(t, "editkind")}
		switch e.Kind {
		case "unset-attachments":
			na = 0
		case "unset-embeds":
			ne = 0
		case "unset-files":
			na, ne = 0, 0
		case "drop-first-attachment":
			na--
		case "drop-last-embed":
			ne--
		case "part-delete":
			e.Idx = rapid.IntRange(0, np-1).Draw(t, "editpart")
			np--
		case "part-ctype":
			e.Idx = rapid.IntRange(0, np-1).Draw(t, "editpart")
			e.Arg = rapid.SampledFrom([]string{"text/plain", "text/html", "text/x-verif", "application/json", "text/calendar; method=REQUEST", "text/plain; format=flowed"}).Draw(t, "editctype")
		case "part-charset":
			e.Idx = rapid.IntRange(0, np-1).Draw(t, "editpart")
			e.Arg = rapid.SampledFrom([]string{"UTF-8", "ISO-8859-1", "US-ASCII", "ISO-8859-15", ""}).Draw(t, "editcharset")
		case "part-content", "part-writefunc":
			e.Idx = rapid.IntRange(0, np-1).Draw(t, "editpart")
			e.Arg = rapid.SampledFrom([]string{"", "replaced\r\n", "=3D replaced caf\u00e9 \r\n.\r\n--x\r\nlast", strings.Repeat("r", 100) + "\r\n"}).Draw(t, "editcontent")
		}
		if np+ne+na == 0 {
			break
		}
		out = append(out, e)
	}
	// a boundary of the caller's own, this time through the setter: only when one multipart level is left
	if spec.Boundary == "" && strings.Count(gen.ExpectedShape(np, ne, na), "(") == 1 && rapid.IntRange(0, 2).Draw(t, "setboundary") == 0 {
		out = append(out, c01Edit{Kind: "set-boundary", Arg: rapid.SampledFrom([]string{"vErIf.SeT_BoUnDaRy-42", "=_VerifSetPart_000_01DA.ABCD", "setter(boundary)+specials,/:=?"}).Draw(t, "setboundaryval")})
	}
	return out
}

func c01Describe() {
	rec := core.Rec("C01")
	rec.Rule = "message programs drawn by rapid: message encoding in {QP, base64, 8bit}; 0..4 body parts/alternatives (string, writer, text and HTML template setters; per-part encoding, charset, description), " +
		"0..3 embeds and 0..3 attachments from every file source (reader, read-seeker, file on disk, fs.FS, templates, custom File.Writer) with per-file encoding/content type/description/content-id; contents from labelled byte classes " +
		"(CRLF/LF/lone-CR line breaks, '=' runs, leading dots, trailing blanks, boundary-like lines, lines of 72..80/150/998..1001 columns, UTF-8 straddling column 76, arbitrary binary, sizes around 57n and 76n, empty). " +
		"One case in six changes the transfer encoding of a body part through Part.SetEncoding after the first render and renders again (judged against the new encoding). One case in six is rendered after another message (a twin of the same program) failed to render into a destination that broke after 1..4000 bytes. Oracle: own RFC 5322/2045/2046/2047 reader on WriteTo's output: leaf list == model in order (type, charset, CTE, disposition, file name, decoded bytes; QP modulo LF->CRLF), nesting shape, boundaries, count; cross-checked with net/mail + mime/multipart. " +
		"Non-trivial: >= 2 leaves, or a leaf whose content contains a byte its CTE must transform. Distinct by (message encoding, per-leaf type/encoding/content-class set)."
	rec.Assumptions = []string{"quoted-printable text parts are generated with CRLF/LF line breaks only (lone CR is outside the statement's domain for QP text)",
		"a caller-chosen boundary is generated only for programs with exactly one multipart level (the documented domain of WithBoundary)", "the host's MIME table may pick any syntactically valid type for files without a declared content type"}
}

func TestC01(t *testing.T) {
	c01Describe()
	core.Prop[c01Case]{ID: "C01", Test: "TestC01", Gen: c01Gen, Run: c01Run}.Check(t)
}

// TestC01Enum enumerates every small shape tuple (parts 0..3, embeds 0..3, attachments 0..3) for
// each message encoding with three fixed content classes. The space is finite and fully covered.
func TestC01Enum(t *testing.T) {
	if core.ReplayArg != "" {
		t.Skip()
	}
	c01Describe()
	p := core.Prop[c01Case]{ID: "C01", Test: "TestC01", Run: c01Run}
	contents := [][]byte{
		[]byte("plain ascii line\r\n"),
		[]byte("=3D caf\xc3\xa9 trailing \r\n.\r\n..dot\r\n--boundary-like\r\n" + strings.Repeat("x", 80) + "\r\nlast line without eol"),
		bytes.Repeat([]byte{0x00, 0xff, '\r', '\n', '=', '.'}, 20),
	}
	idx := 0
	for _, enc := range []string{"quoted-printable", "base64", "8bit"} {
		for np := 0; np <= 3; np++ {
			for ne := 0; ne <= 3; ne++ {
				for na := 0; na <= 3; na++ {
					if np+ne+na == 0 {
						continue
					}
					for ci, content := range contents {
						idx++
						if idx%core.Shards != core.Shard {
							continue
						}
						spec := gen.MsgSpec{Encoding: enc, FixedDate: true, From: "sender@verif.example", To: []string{"rcpt@verif.example"}}
						for i := 0; i < np; i++ {
							ct := "text/plain"
							if i%2 == 1 {
								ct = "text/html"
							}
							pc := content
							if enc == "quoted-printable" && ci == 2 {
								pc = []byte("line one\nline two =\n\tTabbed \n")
							}
							spec.Parts = append(spec.Parts, gen.PartSpec{CType: ct, Content: pc, Via: "string"})
						}
						for i := 0; i < ne; i++ {
							spec.Embeds = append(spec.Embeds, gen.FileSpec{Name: fmt.Sprintf("embed%d.png", i), Content: content, Source: "reader"})
						}
						for i := 0; i < na; i++ {
							spec.Attachments = append(spec.Attachments, gen.FileSpec{Name: fmt.Sprintf("attach%d.bin", i), Content: content, Source: "readseeker"})
						}
						core.Rec("C01").AddExtra("enumerated_shape_cases", 1)
						if v := p.RunOne(c01Case{Spec: spec}); v != nil {
							t.Fatalf("VIOLATION-DETAIL property=C01 %s", v)
						}
					}
				}
			}
		}
	}
}
