package props

import (
	"bytes"
	"crypto/tls"
	"fmt"
	mail "github.com/wneessen/go-mail"
	"os"
	"os/exec"
	"strings"
	"sync"
	"sync/atomic"
	"testing"

	"pgregory.net/rapid"

	"verif/harness/cmsverify"
	"verif/harness/core"
	"verif/harness/gen"
	"verif/harness/mimeread"
	"verif/harness/oracle"
	"verif/harness/tlsutil"
)

// C08 — S/MIME signatures verify for every message shape.

type c08Case struct {
	Spec         gen.MsgSpec `json:"spec"`
	Key          string      `json:"key"` // rsa | ecdsa
	Intermediate bool        `json:"intermediate"`
	Via          string      `json:"via"`           // keypair | tlscert
	EmptyHeader  bool        `json:"empty_header"`  // a generic header set without values
	EmptyIgnore  string      `json:"empty_ignore"`  // "", to, cc: an *IgnoreInvalid list that ends up empty
	MultiLinePre bool        `json:"multiline_pre"` // a preformatted header spanning several lines
	// FailFirst > 0: before the two verified renders, the message is rendered into a sink that
	// fails after that many bytes (a failed render must not disturb the next signature).
	FailFirst int `json:"fail_first,omitempty"`
	// Issuer: curve of the CA that issued the signer certificate (p256/p384/p521), i.e. the hash used
	// for the signature on that certificate.
	Issuer string `json:"issuer,omitempty"`
	// AddAltBetween: after the first verified render an alternative part is added, then the message is
	// rendered again (the signature must follow the message).
	AddAltBetween bool `json:"add_alt_between,omitempty"`
	// ReSign: after the first verified render the caller configures the signer again on the same Msg -
	// "other-key" (the other key type), "toggle-intermediate" (same key type, with the intermediate
	// certificate if there was none and without it if there was one), "same" (the very same key pair) -
	// and renders again; the second rendering must verify under what was configured LAST.
	ReSign string `json:"re_sign,omitempty"`
}

var (
	chainMu sync.Mutex
	chains  = map[string]*tlsutil.SigningChain{}
)

func signingChain(key string, inter bool) *tlsutil.SigningChain {
	return signingChainIssuer(key, inter, "p256")
}

func signingChainIssuer(key string, inter bool, issuer string) *tlsutil.SigningChain {
	if issuer == "" {
		issuer = "p256"
	}
	chainMu.Lock()
	defer chainMu.Unlock()
	k := fmt.Sprintf("%s/%v/%s", key, inter, issuer)
	if c, ok := chains[k]; ok {
		return c
	}
	sameSerial := strings.HasSuffix(issuer, "+sameserial")
	c, err := tlsutil.NewSigningChainSerial(key, inter, strings.TrimSuffix(issuer, "+sameserial"), sameSerial)
	if err != nil {
		panic("HARNESS-ERROR: signing chain: " + err.Error())
	}
	chains[k] = c
	return c
}

func c08Run(c c08Case) []*core.Violation {
	rec := core.Rec("C08")
	spec := c.Spec
	b, err := gen.Build(&spec, env)
	if err != nil {
		rec.Skip()
		return nil
	}
	m := b.Msg
	if c.EmptyHeader {
		m.SetGenHeader("X-Empty-Values")
	}
	switch c.EmptyIgnore {
	case "to":
		m.ToIgnoreInvalid("not an address", "also@@invalid")
	case "cc":
		m.CcIgnoreInvalid("not an address")
	}
	if c.MultiLinePre {
		m.SetGenHeaderPreformatted("X-Multi-Line", "first line\r\n second line\r\n\tthird line")
	}
	chain := signingChainIssuer(c.Key, c.Intermediate, c.Issuer)
	curKey := c.Key
	configure := func(chain *tlsutil.SigningChain) error {
		if c.Via == "tlscert" || c.Via == "tlscert-fullchain" {
			tc := &tls.Certificate{Certificate: [][]byte{chain.Leaf.Raw}, PrivateKey: chain.Key, Leaf: chain.Leaf}
			if chain.Intermediate != nil {
				tc.Certificate = append(tc.Certificate, chain.Intermediate.Raw)
				if c.Via == "tlscert-fullchain" {
					// a "fullchain" key pair: leaf, issuing CA, root - the issuing CA is the intermediate
					tc.Certificate = append(tc.Certificate, chain.Root.Raw)
				}
			}
			return m.SignWithTLSCertificate(tc)
		}
		return m.SignWithKeypair(chain.Key, chain.Leaf, chain.Intermediate)
	}
	if err = configure(chain); err != nil {
		return []*core.Violation{core.V("sign-setup", "%v", err)}
	}
	var vs []*core.Violation
	var firstEntity []byte
	np, ne, na := len(spec.Parts), len(spec.Embeds), len(spec.Attachments)
	if c.FailFirst > 0 {
		sink := &faultSink{limit: c.FailFirst, partial: true}
		_, _ = m.WriteTo(sink)
	}
	for render := 1; render <= 2; render++ {
		var buf bytes.Buffer
		if _, err := m.WriteTo(&buf); err != nil {
			return []*core.Violation{core.V("render-error", "render %d: %v", render, err)}
		}
		root := mimeread.Parse(buf.Bytes())
		where := fmt.Sprintf("render %d", render)
		if root.MediaType != "multipart/signed" {
			return append(vs, core.V("not-signed", "%s: top level is %q, not multipart/signed", where, root.MediaType))
		}
		if p := root.Params["protocol"]; p != "application/pkcs7-signature" {
			vs = append(vs, core.V("protocol", "%s: protocol=%q", where, p))
		}
		if mc := strings.ToLower(root.Params["micalg"]); mc != "sha-256" {
			vs = append(vs, core.V("micalg", "%s: micalg=%q", where, mc))
		}
		for _, p := range root.Problems {
			vs = append(vs, core.V("structure", "%s: %s", where, p))
		}
		if len(root.Children) != 2 {
			return append(vs, core.V("signed-parts", "%s: multipart/signed has %d parts, expected 2 (shape %s)", where, len(root.Children), root.Shape()))
		}
		entity, sigPart := root.Children[0], root.Children[1]
		if sigPart.MediaType != "application/pkcs7-signature" {
			vs = append(vs, core.V("signature-part", "%s: second part is %q", where, sigPart.MediaType))
		}
		der, probs := sigPart.Decoded()
		if sigPart.CTE != "base64" || len(probs) > 0 {
			vs = append(vs, core.V("signature-part", "%s: signature part CTE %q, decode problems %v", where, sigPart.CTE, probs))
			continue
		}
		res, verr := cmsverify.Verify(der, entity.Raw)
		if verr != nil {
			key := "signature-invalid"
			if strings.Contains(verr.Error(), "message-digest attribute") {
				key = "digest-mismatch"
			}
			vs = append(vs, core.V(key, "%s: %v (key %s, shape p%d/e%d/a%d; signed entity starts %q)", where, verr, curKey, np, ne, na, clipS(string(entity.Raw))))
			continue
		}
		if !res.Signer.Equal(chain.Leaf) {
			vs = append(vs, core.V("wrong-signer", "%s: signer certificate is not the one given", where))
		}
		hasInter := false
		for _, cert := range res.Certificates {
			if chain.Intermediate != nil && cert.Equal(chain.Intermediate) {
				hasInter = true
			}
		}
		if hasInter != (chain.Intermediate != nil) || len(res.Certificates) != map[bool]int{false: 1, true: 2}[chain.Intermediate != nil] {
			vs = append(vs, core.V("certificates", "%s: %d certificates carried, intermediate present=%v, intermediate given=%v", where, len(res.Certificates), hasInter, chain.Intermediate != nil))
		}
		if res.KeyType != curKey {
			vs = append(vs, core.V("key-type", "%s: verified with %s, expected %s", where, res.KeyType, curKey))
		}
		// the signed entity is itself a well-formed entity carrying the model's leaves
		inner := mimeread.Parse(entity.Raw)
		vs = append(vs, oracle.CompareLeaves(inner, b.Leaves, np, ne, na, oracle.LeafOpts{})...)
		if render == 1 {
			firstEntity = append([]byte{}, entity.Raw...)
			if c.AddAltBetween {
				// the caller goes on building the message after a first render
				extra := []byte("<p>alternative added after the first render</p>\r\n")
				m.AddAlternativeString("text/html", string(extra))
				b.Leaves = append(b.Leaves[:np:np], append([]gen.Leaf{{Kind: "part", MediaType: "text/html", Charset: "UTF-8", CTE: spec.Encoding, Content: extra}}, b.Leaves[np:]...)...)
				np++
			}
			if c.ReSign != "" {
				inter, issuer := c.Intermediate, c.Issuer
				switch c.ReSign {
				case "other-key":
					curKey = map[string]string{"rsa": "ecdsa", "ecdsa": "rsa"}[c.Key]
					issuer = strings.TrimSuffix(issuer, "+sameserial")
				case "toggle-intermediate":
					inter = !inter
					issuer = strings.TrimSuffix(issuer, "+sameserial")
				}
				chain = signingChainIssuer(curKey, inter, issuer)
				if err := configure(chain); err != nil {
					return append(vs, core.V("sign-setup", "configuring the signer again (%s): %v", c.ReSign, err))
				}
				where = "render 1"
				rec.Class("signer-configured-again:" + c.ReSign)
			}
		} else if !c.AddAltBetween && !bytes.Equal(firstEntity, entity.Raw) {
			vs = append(vs, core.V("signed-entity-changed", "the signed entity differs between the first and the second render"))
		}
		rec.AddExtra("signatures_verified", 1)
		// differential cross-check on a deterministic sample (thorough tier, only where an openssl
		// binary exists): a second, unrelated CMS implementation has to accept what cmsverify accepts
		if core.Thorough() && buf.Len()%4 == 0 {
			if ok, out, avail := opensslVerify(buf.Bytes()); avail {
				rec.AddExtra("openssl_cross_checked", 1)
				if ok {
					// once per process: the same call has to reject a tampered copy, otherwise its
					// verdicts mean nothing
					opensslSelfTest.Do(func() {
						bad := bytes.Replace(buf.Bytes(), entity.Raw, append(append([]byte{}, entity.Raw...), 'x'), 1)
						if ok2, _, avail2 := opensslVerify(bad); avail2 && ok2 {
							vs = append(vs, core.V("HARNESS-openssl-accepts-tampered", "openssl accepted a message whose signed entity was extended by one byte"))
						} else if avail2 {
							rec.AddExtra("openssl_rejected_tampered_copy", 1)
						}
					})
				}
				if !ok {
					vs = append(vs, core.V("openssl-disagrees", "%s: cmsverify accepts the signature, `openssl smime -verify -noverify` does not: %s", where, clipS(out)))
				}
			}
		}
	}
	feat := fmt.Sprintf("%v/%s/%v/%v/%s/%v/%s", c.EmptyHeader, c.EmptyIgnore, c.MultiLinePre, c.FailFirst > 0, c.Issuer, c.AddAltBetween, c.Spec.Middleware)
	rec.NonTrivial(core.Join(spec.ShapeKey(), c.Key, c.Intermediate, c.Via, feat))
	rec.Sample(fmt.Sprintf("%s/%d", c.Key, np+ne+na), map[string]interface{}{"shape": spec.ShapeKey(), "key": c.Key, "intermediate": c.Intermediate, "via": c.Via, "features": feat})
	rec.Class("key:" + c.Key)
	rec.Class(fmt.Sprintf("shape:p%d/e%d/a%d", min(np, 2), min(ne, 2), min(na, 2)))
	return vs
}

var opensslSelfTest sync.Once

var opensslPath = func() string {
	p, err := exec.LookPath("openssl")
	if err != nil {
		return ""
	}
	return p
}()

// opensslVerify runs `openssl smime -verify -noverify` over a rendered message.
func opensslVerify(msg []byte) (ok bool, out string, available bool) {
	if opensslPath == "" {
		return false, "", false
	}
	f, err := os.CreateTemp("", "verif-c08-*.eml")
	if err != nil {
		return false, "", false
	}
	defer os.Remove(f.Name())
	if _, err := f.Write(msg); err != nil {
		f.Close()
		return false, "", false
	}
	f.Close()
	cmd := exec.Command(opensslPath, "smime", "-verify", "-noverify", "-in", f.Name(), "-out", os.DevNull)
	b, err := cmd.CombinedOutput()
	if err != nil {
		if _, isExit := err.(*exec.ExitError); !isExit {
			return false, "", false // could not be run at all: not a verdict
		}
		return false, string(b), true
	}
	return true, string(b), true
}

func c08Gen(t *rapid.T) c08Case {
	o := gen.GenOpts{
		Boundaries: true,
		Encodings:  []string{"quoted-printable", "base64", "8bit"}, MaxParts: 3, MaxEmbeds: 2, MaxAttach: 2, AllowNoBody: true,
		PartEncs: []string{"", "", "quoted-printable", "base64", "8bit"}, FileEncs: []string{"", "", "base64", "8bit"},
		Descriptions: true, CRLFOnly: true, Chunking: true,
	}
	spec := gen.Program(t, o)
	spec.FixedDate = false
	// long descriptions and file names (folding differences between the two renders matter here)
	if rapid.IntRange(0, 3).Draw(t, "longdesc") == 0 && len(spec.Parts) > 0 {
		spec.Parts[0].Desc = "a rather long content description made of ordinary words that certainly exceeds seventy-six characters"
	}
	for i := range spec.Attachments {
		if rapid.IntRange(0, 3).Draw(t, "longname") == 0 {
			spec.Attachments[i].Name = "a file name with several words in it and then some more words to be long.txt"
		}
	}
	nGen := rapid.IntRange(0, 2).Draw(t, "ngeneric")
	for i := 0; i < nGen; i++ {
		spec.Headers = append(spec.Headers, gen.HeaderSpec{Name: fmt.Sprintf("X-Gen-%d", i), Values: []string{rapid.SampledFrom([]string{"short", "a long generic header value with many words so that the header needs to be folded over more than one line for sure", "Grüße"}).Draw(t, "gv")}})
	}
	if rapid.IntRange(0, 3).Draw(t, "contentstar") == 0 {
		// message-level fields whose names look like the MIME fields of the signed entity
		spec.Headers = append(spec.Headers, gen.HeaderSpec{Name: rapid.SampledFrom([]string{"Content-Language", "Content-Location", "Content-Base", "content-language", "Contents", "MIME-Autoconverted"}).Draw(t, "contentname"), Values: []string{"en, de"}, Preformat: rapid.Bool().Draw(t, "contentpre")})
	}
	if rapid.Bool().Draw(t, "preformatted") {
		spec.Headers = append(spec.Headers, gen.HeaderSpec{Name: "X-Preformatted", Values: []string{"preformatted value"}, Preformat: true})
	}
	c := c08Case{Spec: *spec}
	c.Key = rapid.SampledFrom([]string{"ecdsa", "ecdsa", "ecdsa", "rsa"}).Draw(t, "key")
	c.Intermediate = rapid.Bool().Draw(t, "intermediate")
	c.Via = rapid.SampledFrom([]string{"keypair", "tlscert", "tlscert-fullchain"}).Draw(t, "via")
	if c.Via == "tlscert-fullchain" && !c.Intermediate {
		c.Via = "tlscert"
	}
	// a middleware that rewrites the first body part (or only the subject) on every render: what is
	// signed is what is emitted
	if len(c.Spec.Parts) > 0 && rapid.IntRange(0, 4).Draw(t, "middleware") == 0 {
		c.Spec.Middleware = rapid.SampledFrom([]string{"body", "body", "subject"}).Draw(t, "mwkind")
	}
	c.EmptyHeader = rapid.IntRange(0, 3).Draw(t, "emptyheader") == 0
	c.EmptyIgnore = rapid.SampledFrom([]string{"", "", "", "to", "cc"}).Draw(t, "emptyignore")
	if c.EmptyIgnore == "to" {
		c.Spec.Cc = []string{"cc@verif.example"}
	}
	c.MultiLinePre = rapid.IntRange(0, 3).Draw(t, "multilinepre") == 0
	c.Issuer = rapid.SampledFrom([]string{"p256", "p256", "p384", "p521"}).Draw(t, "issuer")
	if c.Intermediate && rapid.IntRange(0, 3).Draw(t, "sameserial") == 0 {
		c.Issuer += "+sameserial" // signer and issuing CA carry the same serial number (unique per issuer only)
	}
	// (a caller-chosen boundary is documented for one multipart level only: no part is added then)
	if len(c.Spec.Parts) >= 1 && c.Spec.Charset == "" && c.Spec.Boundary == "" && rapid.IntRange(0, 3).Draw(t, "addalt") == 0 {
		c.AddAltBetween = true
	}
	if rapid.IntRange(0, 3).Draw(t, "failfirst") == 0 {
		c.FailFirst = rapid.SampledFrom([]int{1, 50, 100, 300, 500, 900, 1500, 2500}).Draw(t, "failoffset")
	}
	if rapid.IntRange(0, 4).Draw(t, "resign") == 0 {
		c.ReSign = rapid.SampledFrom([]string{"other-key", "toggle-intermediate", "same"}).Draw(t, "resignkind")
	}
	return c
}

func TestC08(t *testing.T) {
	rec := core.Rec("C08")
	rec.Rule = "rapid draws message programs (0..3 parts, 0..2 embeds, 0..2 attachments in every combination incl. body-less and file-only messages; QP/base64/8bit per message, part and file; part and file descriptions incl. long ones; long file names; generic headers incl. long and non-ASCII values, a generic header without values, preformatted and multi-line preformatted headers, To/Cc *IgnoreInvalid lists that end up empty; contents in canonical CRLF form; chunked producers), signs them with an ECDSA P-256 or RSA-2048 key whose certificate was issued by a P-256, P-384 or P-521 CA (SHA-256/384/512 on the certificate), with or without an intermediate certificate (one time in four with the same serial number as the signer certificate, which is legal: serial numbers are unique per issuer), through SignWithKeypair or SignWithTLSCertificate (also with a full chain leaf + issuing CA + root, of which the issuing CA is the intermediate to carry), optionally with a middleware that rewrites the first body part or the subject on every render, and renders each message twice (one case in four after a first render into a sink that fails at a drawn offset; one in four with an alternative part added between the two renders; one in five with the signer configured again between the two renders - the other key type, the intermediate certificate added or dropped, or the same key pair - the second rendering being judged against what was configured last). " +
		"Oracle (own MIME reader + own CMS SignedData verifier on encoding/asn1 and crypto/*): top level multipart/signed with protocol=application/pkcs7-signature and micalg=sha-256 and exactly two parts; SHA-256 of the first part exactly as emitted between the delimiters == the message-digest attribute; signed attributes in DER SET order with content-type id-data; signature valid under the carried signer certificate, which is the one given; intermediate carried iff given; the signed entity's leaves match the model; the second render verifies too and carries the same signed entity. " +
		"TestC08Conc: 2..8 goroutines each build, sign (one shared *tls.Certificate through SignWithTLSCertificate, or the shared key pair) and render 2..12 fresh messages at the same time (12 such cases per process in quick, 150 in thorough); every output must be a verifying multipart/signed message of its own content. Non-trivial: every case (each exercises the double render). Distinct by (shape key, key type, intermediate, API, header features)."
	rec.Assumptions = []string{"contents are generated in canonical CRLF form (the property's domain)", "certificate chain validation up to a trust anchor is not part of the property"}
	core.Prop[c08Case]{ID: "C08", Test: "TestC08", Gen: c08Gen, Run: c08Run}.Check(t)
}

// --- concurrent signing with one key pair -------------------------------------------------------

// c08ConcCase: several goroutines each build, sign (SignWithTLSCertificate with ONE shared
// *tls.Certificate, or SignWithKeypair with the shared key) and render fresh messages at the same
// time. Every output has to be a verifying multipart/signed message of its own content.
type c08ConcCase struct {
	Goroutines int    `json:"goroutines"`
	PerG       int    `json:"per_goroutine"`
	Key        string `json:"key"`
	Via        string `json:"via"`
	Attach     bool   `json:"attach"`
}

var c08ConcRuns atomic.Int64

func c08ConcRun(c c08ConcCase) []*core.Violation {
	rec := core.Rec("C08")
	limit := int64(12)
	if core.Thorough() {
		limit = 150
	}
	if core.ReplayArg == "" && c08ConcRuns.Add(1) > limit {
		rec.Skip() // the budget of this (expensive) variant per process is used up: not an evaluation
		return nil
	}
	chain := signingChain(c.Key, false)
	tc := &tls.Certificate{Certificate: [][]byte{chain.Leaf.Raw}, PrivateKey: chain.Key, Leaf: chain.Leaf}
	type result struct {
		tok string
		out []byte
		err error
	}
	results := make(chan result, c.Goroutines*c.PerG)
	start := make(chan struct{})
	var wg sync.WaitGroup
	for g := 0; g < c.Goroutines; g++ {
		g := g
		wg.Add(1)
		go func() {
			defer wg.Done()
			<-start
			for k := 0; k < c.PerG; k++ {
				tok := fmt.Sprintf("concg%dm%dz", g, k)
				m := mail.NewMsg()
				_ = m.From("sender@verif.example")
				_ = m.To("rcpt@verif.example")
				m.Subject("subject " + tok)
				m.SetBodyString(mail.TypeTextPlain, "body of "+tok+"\r\n"+strings.Repeat("line of "+tok+"\r\n", 40))
				if c.Attach {
					_ = m.AttachReader(tok+".txt", strings.NewReader(strings.Repeat("attachment of "+tok+"\r\n", 60)))
				}
				var err error
				if c.Via == "tlscert" {
					err = m.SignWithTLSCertificate(tc)
				} else {
					err = m.SignWithKeypair(chain.Key, chain.Leaf, nil)
				}
				var buf bytes.Buffer
				if err == nil {
					_, err = m.WriteTo(&buf)
				}
				results <- result{tok, buf.Bytes(), err}
			}
		}()
	}
	close(start)
	wg.Wait()
	close(results)
	var vs []*core.Violation
	for r := range results {
		if r.err != nil {
			vs = append(vs, core.V("render-error", "concurrent signing: %s: %v", r.tok, r.err))
			continue
		}
		root := mimeread.Parse(r.out)
		if root.MediaType != "multipart/signed" || len(root.Children) != 2 {
			vs = append(vs, core.V("not-signed", "concurrent signing (%d goroutines, shared key pair via %s): the output of %s is %s with %d parts, not multipart/signed with 2", c.Goroutines, c.Via, r.tok, root.MediaType, len(root.Children)))
			continue
		}
		der, probs := root.Children[1].Decoded()
		if len(probs) > 0 {
			vs = append(vs, core.V("signature-part", "concurrent signing: %s: %v", r.tok, probs))
			continue
		}
		if _, err := cmsverify.Verify(der, root.Children[0].Raw); err != nil {
			vs = append(vs, core.V("signature-invalid", "concurrent signing (%d goroutines, via %s): %s: %v", c.Goroutines, c.Via, r.tok, err))
			continue
		}
		if n := bytes.Count(r.out, []byte("concg")); n != bytes.Count(r.out, []byte(r.tok)) || !bytes.Contains(r.out, []byte("body of "+r.tok)) {
			vs = append(vs, core.V("content-mixed", "concurrent signing: the output of %s carries tokens of another message", r.tok))
		}
		rec.AddExtra("concurrent_signatures_verified", 1)
	}
	rec.NonTrivial(fmt.Sprintf("conc/%d/%d/%s/%s/%v", c.Goroutines, c.PerG, c.Key, c.Via, c.Attach))
	rec.Class("concurrent-signing")
	return vs
}

func c08ConcGen(t *rapid.T) c08ConcCase {
	return c08ConcCase{
		Goroutines: rapid.IntRange(2, 8).Draw(t, "goroutines"),
		PerG:       rapid.IntRange(2, 12).Draw(t, "per"),
		Key:        rapid.SampledFrom([]string{"ecdsa", "ecdsa", "rsa"}).Draw(t, "key"),
		Via:        rapid.SampledFrom([]string{"tlscert", "tlscert", "keypair"}).Draw(t, "via"),
		Attach:     rapid.Bool().Draw(t, "attach"),
	}
}

func TestC08Conc(t *testing.T) {
	core.Prop[c08ConcCase]{ID: "C08", Test: "TestC08Conc", Gen: c08ConcGen, Run: c08ConcRun}.Check(t)
}
