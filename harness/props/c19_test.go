package props

import (
	"context"
	"crypto/tls"
	"fmt"
	"runtime/debug"
	"sort"
	"strings"
	"sync"
	"testing"
	"time"

	mail "github.com/wneessen/go-mail"
	"pgregory.net/rapid"

	"verif/harness/core"
	"verif/harness/refsmtp"
	"verif/harness/tlsutil"
)

// C19 — no connection outlives a failed operation.

type c19Case struct {
	Cfg     smtpCfg                    `json:"cfg"`
	Caps    []string                   `json:"caps"`
	Steps   map[string]refsmtp.Outcome `json:"steps,omitempty"`
	Call    string                     `json:"call"`     // dial | dialandsend
	BadCert bool                       `json:"bad_cert"` // server presents a certificate of an untrusted CA
	NMsgs   int                        `json:"nmsgs"`
	// CancelAt: the caller's context is cancelled while the client waits for the (positive, 40 ms late)
	// reply of that step of the dial dialogue; whatever the call returns, no connection stays open.
	CancelAt string `json:"cancel_at,omitempty"`
	// NoDeadlines: the transport handed to the client does not support deadlines (SetDeadline fails).
	NoDeadlines bool `json:"no_deadlines,omitempty"`
}

var (
	badOnce sync.Once
	badLeaf tls.Certificate
)

func untrustedServerTLS() *tls.Config {
	badOnce.Do(func() {
		ca, err := tlsutil.NewCA("untrusted verif CA")
		if err != nil {
			panic("HARNESS-ERROR: " + err.Error())
		}
		badLeaf, err = ca.Leaf([]string{refHost}, nil)
		if err != nil {
			panic("HARNESS-ERROR: " + err.Error())
		}
	})
	return &tls.Config{Certificates: []tls.Certificate{badLeaf}, MinVersion: tls.VersionTLS12}
}

func c19Exec(c *c19Case) (d *refsmtp.Dialer, callErr error, res callResult, closedBefore []bool, hv *core.Violation) {
	steps := c.Steps
	ctx := context.Background()
	var cancel context.CancelFunc
	if c.CancelAt != "" {
		steps = map[string]refsmtp.Outcome{}
		for k, v := range c.Steps {
			steps[k] = v
		}
		steps[c.CancelAt] = refsmtp.Outcome{Kind: "late", DelayMS: 40}
		ctx, cancel = context.WithCancel(ctx)
		defer cancel()
	}
	srv := refsmtp.NewServer(refsmtp.Script{Caps: c.Caps, Steps: steps, NoGreetProbe: true})
	srv.Auth = c05Auth
	srv.TLS = serverTLS(0)
	if c.BadCert {
		srv.TLS = untrustedServerTLS()
	}
	if cancel != nil {
		srv.LateHook = func(string) { cancel() }
	}
	d = &refsmtp.Dialer{Srv: srv, NoDeadlines: c.NoDeadlines}
	cl, err := mail.NewClient(refHost, c.Cfg.options(d)...)
	if err != nil {
		return nil, nil, res, nil, core.V("HARNESS-newclient", "%v", err)
	}
	var msgs []*mail.Msg
	for i := 0; i < c.NMsgs; i++ {
		msgs = append(msgs, simpleMsg(i+1, 1, "quoted-printable"))
	}
	res = watchdog(20*time.Second, d, func() error {
		if c.Call == "dialandsend" {
			callErr = cl.DialAndSendWithContext(ctx, msgs...)
			return nil
		}
		if callErr = cl.DialWithContext(ctx); callErr != nil {
			return nil
		}
		// an established connection is closed by the caller; a failing QUIT must still close it
		callErr = cl.Close()
		return nil
	})
	closedBefore = d.ClosedByClient()
	d.Shutdown()
	return d, callErr, res, closedBefore, nil
}

func c19Run(c c19Case) []*core.Violation {
	rec := core.Rec("C19")
	d, callErr, res, closed, hv := c19Exec(&c)
	if hv != nil {
		return []*core.Violation{hv}
	}
	if res.Panic != nil {
		return []*core.Violation{core.V("panic", "client panicked: %v", res.Panic)}
	}
	if res.TimedOut {
		rec.AddExtra("inconclusive_watchdog", 1)
		return nil
	}
	var vs []*core.Violation
	for i, cl := range closed {
		s := d.Sessions[i]
		if !cl {
			what := "succeeded"
			key := "open-after-success"
			if callErr != nil {
				what = fmt.Sprintf("returned the error %q", callErr)
				key = "open-after-error"
			}
			vs = append(vs, core.V(key, "%s %s but connection %d was never closed by the client\n--- transcript:\n%s", c.Call, what, i, s.Transcript(30)))
		}
		if callErr == nil && c.Call == "dialandsend" && !s.QuitSeen {
			vs = append(vs, core.V("no-quit-after-success", "DialAndSend succeeded without sending QUIT\n%s", s.Transcript(30)))
		}
	}
	// evidence
	var keys []string
	for k, o := range c.Steps {
		keys = append(keys, k+"="+o.Kind+fmt.Sprint(o.Code/100))
	}
	sort.Strings(keys)
	injected := len(keys) > 0 || c.BadCert || callErr != nil || c.CancelAt != "" || c.NoDeadlines || c.Cfg.HELO != ""
	if injected {
		rec.NonTrivial(core.Join(c.Cfg.TLS, c.Cfg.Auth, strings.Join(c.Caps, ","), strings.Join(keys, ","), c.Call, c.BadCert, c.NMsgs, c.CancelAt, c.NoDeadlines, core.Hash(c.Cfg.HELO)))
		rec.Sample(c.Cfg.TLS+"/"+c.Cfg.Auth+"/"+c.Call, map[string]interface{}{"tls": c.Cfg.TLS, "auth": c.Cfg.Auth, "caps": c.Caps, "faults": keys, "bad_cert": c.BadCert, "call": c.Call, "error": fmt.Sprint(callErr)})
	}
	if callErr != nil {
		rec.Class("call-failed")
	} else {
		rec.Class("call-succeeded")
	}
	return vs
}

var c19Outcomes = []refsmtp.Outcome{
	{Kind: "reply", Code: 451, Text: "4.3.0 try later"},
	{Kind: "reply", Code: 554, Text: "5.5.0 no"},
	{Kind: "drop"},
	{Kind: "garbage"},
}

func c19Configs() []c19Case {
	var out []c19Case
	authCaps := "AUTH PLAIN LOGIN CRAM-MD5 XOAUTH2 SCRAM-SHA-1 SCRAM-SHA-256"
	for _, tlsp := range []string{"none", "opportunistic", "mandatory"} {
		for _, auth := range []string{"", "PLAIN-NOENC", "LOGIN-NOENC", "CRAM-MD5", "XOAUTH2", "SCRAM-SHA-256", "AUTODISCOVER"} {
			for _, call := range []string{"dial", "dialandsend"} {
				cfg := smtpCfg{TLS: tlsp, Auth: auth}
				if auth != "" {
					cfg.User, cfg.Pass = "user", "secretpw"
				}
				base := []string{"8BITMIME", authCaps}
				withTLS := append([]string{"STARTTLS"}, base...)
				// capability variants: STARTTLS offered or not, AUTH offered or not / wrong mechanisms
				for _, caps := range [][]string{withTLS, base, {"STARTTLS", "8BITMIME"}, {"STARTTLS", "AUTH GSSAPI"}} {
					out = append(out, c19Case{Cfg: cfg, Caps: caps, Call: call, NMsgs: 1})
				}
				if tlsp != "none" {
					out = append(out, c19Case{Cfg: cfg, Caps: withTLS, Call: call, NMsgs: 1, BadCert: true})
				}
			}
		}
	}
	return out
}

func c19Describe() {
	rec := core.Rec("C19")
	rec.Rule = "TestC19Enum: for every combination of TLS policy {none, opportunistic, mandatory} x auth {none, PLAIN-NOENC, LOGIN-NOENC, CRAM-MD5, XOAUTH2, SCRAM-SHA-256 (server rejects), AUTODISCOVER} x call {DialWithContext then Close, DialAndSend} x capability variant {STARTTLS+AUTH, no STARTTLS, no AUTH, foreign mechanism only} (+ untrusted server certificate for the TLS policies), the fault-free dialogue is recorded and EVERY step id in it is answered with each of {4yz, 5yz, drop, garbage}; the fault-free dialogue over a transport without deadline support and with HELO names the library refuses locally after the connection was opened; and at every EHLO/STARTTLS/AUTH/NOOP step the caller's context is cancelled while the client waits for the (positive, 40 ms late) reply. " +
		"TestC19: rapid draws configurations with 0..3 faults at drawn steps and 1..2 messages. " +
		"TestC19TCP: real TCP with the library's DEFAULT dialers (net.Dialer; tls.Dialer for implicit TLS), implicit TLS and STARTTLS x auth {none, PLAIN, CRAM-MD5} x every step answered 554/451/garbage, plus handshakes that fail after the TCP connect succeeded (certificate of an unknown CA, certificate for another name, a plain-text speaker on the implicit-TLS port); oracle there: the server sees every connection end within 2 s of the call's return, with the garbage collector switched off. " +
		"Oracle: connections are handed out through WithDialContextFunc as tracking net.Conns; when the call returned an error after a connection was opened, Close must have been called on it by the time the call returned; a successful DialAndSend sent QUIT and closed the connection; a connection closed by the caller (Client.Close) is closed even when QUIT fails. " +
		"Non-trivial: every case with an injected failure or a failing call. Distinct by (policy, auth, capabilities, fault script, call, certificate)."
	rec.Assumptions = []string{"TestC19/TestC19Enum: in-memory transport through WithDialContextFunc; the default dialers (implicit TLS) are exercised by TestC19TCP only", "server-side EOF is not used as the oracle (Close on the tracking connection is)"}
}

func TestC19Enum(t *testing.T) {
	if core.ReplayArg != "" {
		t.Skip()
	}
	c19Describe()
	p := core.Prop[c19Case]{ID: "C19", Test: "TestC19", Run: c19Run}
	for i, base := range c19Configs() {
		if i%core.Shards != core.Shard {
			continue
		}
		d, _, _, _, hv := c19Exec(&base)
		if hv != nil {
			t.Fatalf("HARNESS-ERROR: %v", hv)
		}
		if v := p.RunOne(base); v != nil {
			t.Fatalf("VIOLATION-DETAIL property=C19 %s", v)
		}
		for _, variant := range []func(c *c19Case){func(c *c19Case) { c.NoDeadlines = true }, func(c *c19Case) { c.Cfg.HELO = "mail gateway" }, func(c *c19Case) { c.Cfg.HELO = "x\r\nRSET" }} {
			c := base
			variant(&c)
			core.Rec("C19").AddExtra("enumerated_transport_and_helo_variants", 1)
			if v := p.RunOne(c); v != nil {
				t.Fatalf("VIOLATION-DETAIL property=C19 %s", v)
			}
		}
		var steps []string
		if len(d.Sessions) > 0 {
			steps = d.Sessions[0].Steps
		}
		seen := map[string]bool{}
		for _, st := range steps {
			if seen[st] {
				continue
			}
			seen[st] = true
			for _, o := range c19Outcomes {
				if !core.Thorough() && o.Kind == "garbage" && st != "greet" && st != "starttls" {
					continue
				}
				c := base
				c.Steps = map[string]refsmtp.Outcome{st: o}
				core.Rec("C19").AddExtra("enumerated_failure_points", 1)
				if v := p.RunOne(c); v != nil {
					t.Fatalf("VIOLATION-DETAIL property=C19 %s", v)
				}
			}
			// the caller's context is cancelled while the client waits for the (positive) reply of this step
			if strings.HasPrefix(st, "ehlo#") || st == "starttls" || strings.HasPrefix(st, "auth#") || strings.HasPrefix(st, "noop#") {
				c := base
				c.CancelAt = st
				core.Rec("C19").AddExtra("enumerated_cancellation_points", 1)
				if v := p.RunOne(c); v != nil {
					t.Fatalf("VIOLATION-DETAIL property=C19 %s", v)
				}
			}
		}
	}
	core.Rec("C19").Exhaustive = true
}

func c19Gen(t *rapid.T) c19Case {
	cfgs := c19Configs()
	c := cfgs[rapid.IntRange(0, len(cfgs)-1).Draw(t, "config")]
	c.NMsgs = rapid.IntRange(1, 2).Draw(t, "nmsgs")
	steps := []string{"greet", "ehlo#1", "helo#1", "starttls", "ehlo#2", "auth#1", "noop#1", "mail#1", "rcpt#1.1", "data#1", "eod#1", "noop#2", "rset#1", "mail#2", "eod#2", "quit"}
	n := rapid.IntRange(0, 3).Draw(t, "nfaults")
	c.Steps = map[string]refsmtp.Outcome{}
	for i := 0; i < n; i++ {
		c.Steps[rapid.SampledFrom(steps).Draw(t, "step")] = rapid.SampledFrom(append(c19Outcomes, refsmtp.Outcome{Kind: "dropafter", Code: 421, Text: "bye"})).Draw(t, "outcome")
	}
	if rapid.IntRange(0, 7).Draw(t, "nodeadlines") == 0 {
		c.NoDeadlines = true
	}
	if rapid.IntRange(0, 7).Draw(t, "helo") == 0 {
		// HELO names the library refuses before it talks to the server: the connection is open by then
		c.Cfg.HELO = rapid.SampledFrom([]string{"mail gateway", "tab\tname", "x\r\nRSET", "nul\x00name", "fine.example"}).Draw(t, "heloname")
	}
	if rapid.IntRange(0, 4).Draw(t, "cancel") == 0 {
		c.CancelAt = rapid.SampledFrom([]string{"ehlo#1", "starttls", "ehlo#2", "auth#1", "noop#1"}).Draw(t, "cancelat")
	}
	return c
}

func TestC19(t *testing.T) {
	c19Describe()
	core.Prop[c19Case]{ID: "C19", Test: "TestC19", Gen: c19Gen, Run: c19Run}.Check(t)
}

// TestC19TCP is the secondary oracle: real TCP with the DEFAULT dialers (net.Dialer, and tls.Dialer
// for implicit TLS), where no tracking connection can be injected. The reference server must see the
// connection end within 2 s of the call's return; the garbage collector is switched off so that a
// finalizer cannot close a leaked socket for the library.
type c19TCPCase struct {
	Implicit bool            `json:"implicit"`
	Auth     string          `json:"auth"`
	Step     string          `json:"step"`
	Outcome  refsmtp.Outcome `json:"outcome"`
	Caps     []string        `json:"caps"`
	// Handshake (implicit TLS): "" = fine, "untrusted" = certificate of an unknown CA, "wrongname" =
	// certificate for another host, "plaintext" = a plain-text SMTP speaker on the implicit-TLS port.
	Handshake string `json:"handshake,omitempty"`
}

func c19TCPRun(c c19TCPCase) []*core.Violation {
	rec := core.Rec("C19")
	old := debug.SetGCPercent(-1)
	defer debug.SetGCPercent(old)
	steps := map[string]refsmtp.Outcome{}
	if c.Step != "" {
		steps[c.Step] = c.Outcome
	}
	srv := refsmtp.NewServer(refsmtp.Script{Caps: c.Caps, Steps: steps, NoGreetProbe: true})
	srv.Auth = c05Auth
	srv.TLS = serverTLS(0)
	c07Certs()
	switch c.Handshake {
	case "untrusted":
		srv.TLS = &tls.Config{Certificates: []tls.Certificate{c07Untrusted}, MinVersion: tls.VersionTLS12}
	case "wrongname":
		srv.TLS = &tls.Config{Certificates: []tls.Certificate{c07WrongName}, MinVersion: tls.VersionTLS12}
	}
	ln, err := refsmtp.ListenTCP("127.0.0.1", srv, c.Implicit && c.Handshake != "plaintext")
	if err != nil {
		return []*core.Violation{core.V("HARNESS-listen", "%v", err)}
	}
	defer ln.Close()
	opts := []mail.Option{mail.WithPort(ln.Port()), mail.WithTimeout(3 * time.Second), mail.WithHELO("client.verif.example")}
	if c.Implicit {
		opts = append(opts, mail.WithSSL())
	} else {
		opts = append(opts, mail.WithTLSPolicy(mail.TLSMandatory))
	}
	if c.Auth != "" {
		opts = append(opts, mail.WithSMTPAuth(mail.SMTPAuthType(c.Auth)), mail.WithUsername("user"), mail.WithPassword("secretpw"))
	}
	cl, err := mail.NewClient("127.0.0.1", opts...)
	if err != nil {
		return []*core.Violation{core.V("HARNESS-newclient", "%v", err)}
	}
	callErr := cl.DialAndSend(simpleMsg(1, 1, "quoted-printable"))
	deadline := time.Now().Add(2 * time.Second)
	_ = ln.L.Close()
	ln.Srv.Release()
	open := 0
	for _, s := range ln.SessionsSnapshot() {
		select {
		case <-s.Done:
		case <-time.After(time.Until(deadline)):
			open++
		}
	}
	rec.NonTrivial(core.Join("tcp", c.Implicit, c.Auth, c.Step, c.Outcome.Kind, c.Outcome.Code, strings.Join(c.Caps, ","), c.Handshake))
	rec.AddExtra("tcp_default_dialer_cases", 1)
	if open > 0 {
		return []*core.Violation{core.V("open-after-return-tcp", "DialAndSend over TCP with the default dialers (implicit TLS=%v, handshake %q, auth %q, fault %s=%s%d) returned %v but %d connection(s) were still open at the server 2 s later", c.Implicit, c.Handshake, c.Auth, c.Step, c.Outcome.Kind, c.Outcome.Code, callErr, open)}
	}
	return nil
}

func TestC19TCP(t *testing.T) {
	c19Describe()
	p := core.Prop[c19TCPCase]{ID: "C19", Test: "TestC19TCP", Run: c19TCPRun}
	if core.ReplayArg != "" {
		p.Check(t)
		return
	}
	if core.Shard != 0 {
		p.Regress(t)
		return
	}
	authCaps := "AUTH PLAIN LOGIN CRAM-MD5"
	for _, implicit := range []bool{true, false} {
		for _, auth := range []string{"", "PLAIN", "CRAM-MD5"} {
			steps := []string{"", "greet", "ehlo#1", "noop#1", "mail#1", "rcpt#1.1", "data#1", "eod#1", "rset#1", "quit"}
			if auth != "" {
				steps = append(steps, "auth#1")
			}
			if !implicit {
				steps = append(steps, "starttls", "tlshandshake", "ehlo#2")
			}
			caps := []string{"8BITMIME", authCaps}
			if !implicit {
				caps = append([]string{"STARTTLS"}, caps...)
			}
			var cases []c19TCPCase
			for _, st := range steps {
				for _, o := range []refsmtp.Outcome{{Kind: "reply", Code: 554, Text: "5.5.0 no"}, {Kind: "reply", Code: 451, Text: "4.3.0 later"}, {Kind: "garbage"}} {
					if st == "" && o.Code != 554 {
						continue
					}
					cases = append(cases, c19TCPCase{implicit, auth, st, o, caps, ""})
				}
			}
			cases = append(cases, c19TCPCase{implicit, auth, "", refsmtp.OK, []string{"8BITMIME"}, ""})
			if implicit {
				// the TCP connect succeeds, the TLS handshake does not
				for _, hs := range []string{"untrusted", "wrongname", "plaintext"} {
					cases = append(cases, c19TCPCase{implicit, auth, "", refsmtp.OK, caps, hs})
				}
			} else {
				for _, hs := range []string{"untrusted", "wrongname"} {
					cases = append(cases, c19TCPCase{implicit, auth, "", refsmtp.OK, caps, hs})
				}
			}
			for _, c := range cases {
				if v := p.RunOne(c); v != nil {
					t.Fatalf("VIOLATION-DETAIL property=C19 %s", v)
				}
			}
		}
	}
}
