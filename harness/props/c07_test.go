package props

import (
	"bytes"
	"context"
	"crypto/tls"
	"fmt"
	"net"
	"strings"
	"sync"
	"testing"
	"time"

	mail "github.com/wneessen/go-mail"
	"github.com/wneessen/go-mail/smtp"
	"pgregory.net/rapid"

	"verif/harness/core"
	"verif/harness/refsmtp"
	"verif/harness/tlsutil"
)

// C07 — TLS policy and credential confidentiality hold against any server.

type c07Case struct {
	Policy    string `json:"policy"` // mandatory | opportunistic | none | implicit | default (no option: must behave as mandatory)
	Auth      string `json:"auth"`   // SMTPAuthType ("" = NOAUTH default)
	Host      string `json:"host"`   // 127.0.0.1 (localhost by go-mail's rule) | 127.0.0.2
	StartTLS  bool   `json:"starttls_advertised"`
	TLSReply  string `json:"starttls_reply"` // ok | 4yz | 5yz | garbage
	Handshake string `json:"handshake"`      // ok | wrongname | untrusted | garbage
	AuthList  string `json:"auth_list"`      // advertised mechanisms ("-" = no AUTH keyword at all)
	User      string `json:"user"`
	Pass      string `json:"pass"`
	// Setup: the policy is not given as an option but established by this sequence of setter calls on
	// the Client ("policy:<p>" SetTLSPolicy, "portpolicy:<p>" SetTLSPortPolicy, "ssl:<bool>" SetSSL,
	// "sslport:<bool>" SetSSLPort(b, false)); earlier entries are other policies the caller tried first,
	// Opt is a policy OPTION given to NewClient before them. What counts is the last word: Policy.
	Setup []string `json:"setup,omitempty"`
	Opt   string   `json:"opt,omitempty"`
	// Prior: before the judged DialAndSend the same Client has already dialled and closed one
	// connection to the same address, where a well-behaved server offered STARTTLS with a valid
	// certificate and AUTH PLAIN LOGIN.
	Prior bool `json:"prior,omitempty"`
	// DefaultPorts: the Client is created WITHOUT a port option, so that the port setters' own logic
	// (587 with fallback 25 and the like) is in force; the judged plain-text server listens on port 25,
	// nobody listens on 587/465.
	DefaultPorts bool `json:"default_ports,omitempty"`
	// SetupAfterPrior: the setter sequence is applied AFTER the first connection (Prior), i.e. the
	// policy changes between two dials of one Client.
	SetupAfterPrior bool `json:"setup_after_prior,omitempty"`
	// SharedTLSConfigWith: the *tls.Config given to this Client (RootCAs only, no ServerName) was given
	// to another Client, created for that other host, before.
	SharedTLSConfigWith string `json:"shared_tls_config_with,omitempty"`
	// AuthFirst: the Client is created with THIS authentication (a password-revealing one: PLAIN-NOENC,
	// LOGIN-NOENC or CUSTOM-NOENC = smtp.PlainAuth with allowUnencryptedAuth) and the application then
	// changes its mind through SetSMTPAuth(Auth) / SetSMTPAuthCustom (Auth "CUSTOM": the strict PlainAuth).
	// What counts is the last word: Auth.
	AuthFirst string `json:"auth_first,omitempty"`
	// PriorOpen (with Prior): the first connection is NOT closed; the judged act is DialWithContext again,
	// Send, Close on the same Client (the setters of SetupAfterPrior run in between).
	PriorOpen bool `json:"prior_open,omitempty"`
	// Quick: the judged call is the package-level mail.QuickSend("host:port", auth data, ...), which builds its own
	// Client (opportunistic TLS, auto-discovered authentication); Policy is "opportunistic", Auth "AUTODISCOVER" or "".
	Quick bool `json:"quick,omitempty"`
}

func c07Policy(p string) mail.TLSPolicy {
	switch p {
	case "opportunistic":
		return mail.TLSOpportunistic
	case "none":
		return mail.NoTLS
	}
	return mail.TLSMandatory
}

var (
	c07Once      sync.Once
	c07WrongName tls.Certificate
	c07Untrusted tls.Certificate
)

func c07Certs() {
	c07Once.Do(func() {
		ca, _ := pki()
		var err error
		if c07WrongName, err = ca.Leaf([]string{"some.other.host.example"}, []string{"192.0.2.77"}); err != nil {
			panic("HARNESS-ERROR: " + err.Error())
		}
		other, err := tlsutil.NewCA("second, untrusted CA")
		if err != nil {
			panic("HARNESS-ERROR: " + err.Error())
		}
		if c07Untrusted, err = other.Leaf([]string{"localhost"}, []string{"127.0.0.1", "127.0.0.2"}); err != nil {
			panic("HARNESS-ERROR: " + err.Error())
		}
	})
}

var c07ClearLine = map[string]bool{"STARTTLS": true, "QUIT": true}

func c07Run(c c07Case) []*core.Violation {
	rec := core.Rec("C07")
	c07Certs()
	caps := []string{"8BITMIME"}
	if c.StartTLS {
		caps = append(caps, "STARTTLS")
	}
	if c.AuthList != "-" {
		caps = append(caps, strings.TrimSpace("AUTH "+c.AuthList))
	}
	steps := map[string]refsmtp.Outcome{}
	switch c.TLSReply {
	case "4yz":
		steps["starttls"] = refsmtp.Outcome{Kind: "reply", Code: 454, Text: "4.7.0 TLS not available"}
	case "5yz":
		steps["starttls"] = refsmtp.Outcome{Kind: "reply", Code: 502, Text: "5.5.1 not implemented"}
	case "garbage":
		steps["starttls"] = refsmtp.Outcome{Kind: "garbage"}
	}
	if c.Handshake == "garbage" {
		steps["tlshandshake"] = refsmtp.Outcome{Kind: "garbage"}
	}
	srv := refsmtp.NewServer(refsmtp.Script{Caps: caps, Steps: steps, NoGreetProbe: true})
	srv.Auth = c05Auth
	_, leaf := pki()
	validCert := true
	switch c.Handshake {
	case "wrongname":
		srv.TLS, validCert = &tls.Config{Certificates: []tls.Certificate{c07WrongName}, MinVersion: tls.VersionTLS12}, false
	case "untrusted":
		srv.TLS, validCert = &tls.Config{Certificates: []tls.Certificate{c07Untrusted}, MinVersion: tls.VersionTLS12}, false
	default:
		srv.TLS = &tls.Config{Certificates: []tls.Certificate{leaf}, MinVersion: tls.VersionTLS12}
	}
	implicit := c.Policy == "implicit"
	if implicit && c.Handshake == "garbage" {
		// a plain-text speaker on the implicit TLS port
		validCert = false
	}
	var ln *refsmtp.TCPListener
	var err error
	fallback := c.Policy == "implicit-fallback"
	switch {
	case c.DefaultPorts:
		ln, err = refsmtp.ListenTCPPort(c.Host, 25, srv, false)
		if err != nil {
			rec.AddExtra("skipped_port_25_not_bindable", 1)
			return nil
		}
	case fallback:
		// implicit TLS with a fallback port: the primary port refuses the connection and a PLAIN-TEXT
		// SMTP server answers on the fallback port 25
		implicit = true
		ln, err = refsmtp.ListenTCPPort(c.Host, 25, srv, false)
		if err != nil {
			rec.AddExtra("skipped_port_25_not_bindable", 1)
			return nil
		}
	case implicit && c.Handshake == "garbage":
		ln, err = refsmtp.ListenTCP(c.Host, srv, false)
	default:
		ln, err = refsmtp.ListenTCP(c.Host, srv, implicit)
	}
	if err != nil {
		return []*core.Violation{core.V("HARNESS-listen", "%v", err)}
	}
	port := ln.Port()
	if fallback {
		// a port nobody listens on
		tmp, lerr := net.Listen("tcp", net.JoinHostPort(c.Host, "0"))
		if lerr != nil {
			ln.Close()
			return []*core.Violation{core.V("HARNESS-listen", "%v", lerr)}
		}
		port = tmp.Addr().(*net.TCPAddr).Port
		_ = tmp.Close()
	}
	opts := []mail.Option{mail.WithTimeout(3 * time.Second), mail.WithHELO("client.verif.example")}
	if fallback {
		opts = append(opts, mail.WithSSLPort(true))
	}
	if !c.DefaultPorts {
		opts = append(opts, mail.WithPort(port))
	}
	polOpt := c.Policy
	if len(c.Setup) > 0 || c.Opt != "" {
		polOpt = c.Opt
	}
	switch polOpt {
	case "implicit+none":
		// implicit TLS ("SMTPS"), and no STARTTLS on top of it
		opts = append(opts, mail.WithSSL(), mail.WithTLSPolicy(mail.NoTLS))
	case "implicit+opportunistic":
		opts = append(opts, mail.WithSSL(), mail.WithTLSPolicy(mail.TLSOpportunistic))
	case "mandatory":
		opts = append(opts, mail.WithTLSPolicy(mail.TLSMandatory))
	case "opportunistic":
		opts = append(opts, mail.WithTLSPolicy(mail.TLSOpportunistic))
	case "none":
		opts = append(opts, mail.WithTLSPolicy(mail.NoTLS))
	case "implicit":
		opts = append(opts, mail.WithSSL())
	}
	switch {
	case c.AuthFirst == "CUSTOM-NOENC":
		opts = append(opts, mail.WithSMTPAuthCustom(smtp.PlainAuth("", c.User, c.Pass, c.Host, true)), mail.WithUsername(c.User), mail.WithPassword(c.Pass))
	case c.AuthFirst != "":
		opts = append(opts, mail.WithSMTPAuth(mail.SMTPAuthType(c.AuthFirst)), mail.WithUsername(c.User), mail.WithPassword(c.Pass))
	case c.Auth != "" && c.Auth != "CUSTOM":
		opts = append(opts, mail.WithSMTPAuth(mail.SMTPAuthType(c.Auth)), mail.WithUsername(c.User), mail.WithPassword(c.Pass))
	case c.Auth == "CUSTOM":
		opts = append(opts, mail.WithSMTPAuthCustom(smtp.PlainAuth("", c.User, c.Pass, c.Host, false)))
	}
	if c.SharedTLSConfigWith != "" {
		ca, _ := pki()
		shared := &tls.Config{RootCAs: ca.Pool(), MinVersion: tls.VersionTLS12}
		if _, oerr := mail.NewClient(c.SharedTLSConfigWith, mail.WithTLSConfig(shared)); oerr != nil {
			ln.Close()
			return []*core.Violation{core.V("HARNESS-newclient", "first client of the shared config: %v", oerr)}
		}
		opts = append(opts, mail.WithTLSConfig(shared))
	}
	cl, err := mail.NewClient(c.Host, opts...)
	if err != nil {
		ln.Close()
		return []*core.Violation{core.V("HARNESS-newclient", "%v", err)}
	}
	if c.AuthFirst != "" {
		switch c.Auth {
		case "CUSTOM":
			cl.SetSMTPAuthCustom(smtp.PlainAuth("", c.User, c.Pass, c.Host, false))
		case "":
			cl.SetSMTPAuth(mail.SMTPAuthNoAuth)
		default:
			cl.SetSMTPAuth(mail.SMTPAuthType(c.Auth))
		}
		rec.AddExtra("auth_changed_through_setter_cases", 1)
	}
	applySetup := func() *core.Violation {
		for _, st := range c.Setup {
			k, v, _ := strings.Cut(st, ":")
			switch k {
			case "policy":
				cl.SetTLSPolicy(c07Policy(v))
			case "portpolicy":
				cl.SetTLSPortPolicy(c07Policy(v))
			case "ssl":
				cl.SetSSL(v == "true")
			case "sslport":
				cl.SetSSLPort(v == "true", false)
			default:
				return core.V("HARNESS-setup", "unknown setup step %q", st)
			}
		}
		return nil
	}
	if c.SetupAfterPrior {
		// nothing yet: the setters run between the two connections
	} else if hv := applySetup(); hv != nil {
		ln.Close()
		return []*core.Violation{hv}
	}
	firstJudged := 0
	var openPrior []*refsmtp.Session
	var openPriorMark []int
	if c.Prior {
		// first act: a well-behaved server at the same address; what the client learns there must not
		// weaken what it does on the next connection
		prior := refsmtp.NewServer(refsmtp.Script{Caps: []string{"8BITMIME", "STARTTLS", "AUTH PLAIN LOGIN"}, NoGreetProbe: true})
		prior.Auth = c05Auth
		prior.TLS = &tls.Config{Certificates: []tls.Certificate{leaf}, MinVersion: tls.VersionTLS12}
		ln.SetServer(prior)
		pdone := make(chan struct{})
		go func() {
			defer close(pdone)
			defer func() { _ = recover() }()
			if err := cl.DialWithContext(context.Background()); err == nil && !c.PriorOpen {
				_ = cl.Close()
			}
		}()
		select {
		case <-pdone:
		case <-time.After(30 * time.Second):
			ln.Close()
			rec.AddExtra("inconclusive_watchdog", 1)
			return nil
		}
		if !c.PriorOpen {
			prior.Release()
		}
		firstJudged = len(ln.SessionsSnapshot())
		if c.PriorOpen && c.SetupAfterPrior {
			// the first connection stays open while the policy is tightened: whatever the client sends on it
			// from now on is judged under the new policy as well
			for _, ps := range ln.SessionsSnapshot() {
				openPrior = append(openPrior, ps)
				openPriorMark = append(openPriorMark, len(ps.CleartextSoFar()))
			}
		}
		ln.SetServer(srv)
		if c.SetupAfterPrior {
			if hv := applySetup(); hv != nil {
				ln.Close()
				return []*core.Violation{hv}
			}
		}
		rec.AddExtra("second_connection_of_one_client_cases", 1)
	}
	m := simpleMsg(1, 1, "quoted-printable")
	done := make(chan error, 1)
	go func() {
		defer func() {
			if p := recover(); p != nil {
				done <- fmt.Errorf("PANIC: %v", p)
			}
		}()
		if c.Quick {
			var ad *mail.AuthData
			if c.Auth != "" {
				ad = mail.NewAuthData(c.User, c.Pass)
			}
			_, qerr := mail.QuickSend(fmt.Sprintf("%s:%d", c.Host, port), ad, "sender@verif.example", []string{"rcpt@verif.example"}, "c07 quicksend", []byte("body\r\n"))
			done <- qerr
			return
		}
		if c.PriorOpen {
			// the application dials again without having closed the first connection
			err := cl.DialWithContext(context.Background())
			if err == nil {
				err = cl.Send(m)
				_ = cl.Close()
			}
			done <- err
			return
		}
		done <- cl.DialAndSend(m)
	}()
	var callErr error
	select {
	case callErr = <-done:
	case <-time.After(30 * time.Second):
		ln.Close()
		rec.AddExtra("inconclusive_watchdog", 1)
		return nil
	}
	sessions := ln.CloseFrom(firstJudged)
	if callErr != nil && strings.HasPrefix(callErr.Error(), "PANIC") {
		return []*core.Violation{core.V("panic", "%v", callErr)}
	}
	var vs []*core.Violation
	localhost := c.Host == "127.0.0.1"
	policy := c.Policy
	if policy == "default" {
		policy = "mandatory"
	}
	if policy == "implicit-fallback" {
		policy = "implicit"
	}
	for i, ps := range openPrior {
		sofar := ps.CleartextSoFar()
		if len(sofar) <= openPriorMark[i] {
			continue
		}
		later := string(sofar[openPriorMark[i]:])
		for _, line := range strings.Split(later, "\r\n") {
			f := strings.Fields(line)
			if len(f) == 0 {
				continue
			}
			switch strings.ToUpper(f[0]) {
			case "QUIT", "NOOP", "RSET":
			default:
				if c.Policy == "mandatory" || c.Policy == "implicit" {
					vs0 := core.V("cleartext-under-mandatory-tls", "after the policy was changed to %s the client went on using the unencrypted connection it had opened before: %q\n%s", c.Policy, clipS(line), ps.Transcript(30))
					return []*core.Violation{vs0}
				}
			}
		}
	}
	for si, s := range sessions {
		if si < firstJudged {
			continue
		}
		select {
		case <-s.Done:
		default:
			rec.AddExtra("inconclusive_session_not_finished", 1)
			continue
		}
		ct := s.Cleartext
		tr := s.Transcript(30)
		if s.TLSOK {
			rec.AddExtra("tls_sessions_established", 1)
		}
		if len(s.Commits()) > 0 {
			rec.AddExtra("messages_committed", 1)
			if s.TLSOK {
				rec.AddExtra("messages_committed_inside_tls", 1)
			}
		}
		if len(s.AuthCmds) > 0 {
			rec.AddExtra("auth_commands_seen", 1)
		}
		switch policy {
		case "mandatory":
			// the cleartext stream consists of EHLO/HELO, STARTTLS and QUIT lines only
			for _, line := range strings.Split(string(ct), "\r\n") {
				if line == "" {
					continue
				}
				verb := strings.ToUpper(strings.Fields(line)[0])
				if !(c07ClearLine[line] || ((verb == "EHLO" || verb == "HELO") && len(strings.Fields(line)) == 2)) {
					vs = append(vs, core.V("cleartext-under-mandatory-tls", "with mandatory TLS the client sent %q in clear\n--- transcript:\n%s", clipS(line), tr))
					break
				}
			}
			if s.TLSOK && !validCert {
				// commands inside a TLS session whose certificate is not valid for the host
				vs = append(vs, core.V("invalid-certificate-accepted", "the handshake completed although the server certificate is %s\n%s", c.Handshake, tr))
			}
			if len(s.PostTLSFail) > 0 {
				p := s.PostTLSFail
				isTLSRecord := p[0] >= 0x14 && p[0] <= 0x17
				if !isTLSRecord && string(p) != "QUIT\r\n" {
					vs = append(vs, core.V("cleartext-after-failed-handshake", "after the failed handshake the client sent %q", clipS(string(p))))
				}
			}
		case "implicit":
			if len(ct) > 0 && ct[0] != 0x16 {
				vs = append(vs, core.V("cleartext-under-implicit-tls", "with implicit TLS the first byte sent is 0x%02x, not a TLS handshake record: %q", ct[0], clipS(string(ct))))
			}
			for _, w := range []string{"EHLO ", "HELO ", "AUTH ", "MAIL FROM", "QUIT\r\n"} {
				if bytes.Contains(ct, []byte(w)) {
					vs = append(vs, core.V("cleartext-under-implicit-tls", "with implicit TLS the client sent %q in clear", w))
				}
			}
			if s.TLSOK && !validCert {
				vs = append(vs, core.V("invalid-certificate-accepted", "implicit TLS completed although the server certificate is %s", c.Handshake))
			}
		}
		// credentials in clear
		exempt := c.Auth == "PLAIN-NOENC" || c.Auth == "LOGIN-NOENC" || localhost
		passwordAuth := c.Auth == "PLAIN" || c.Auth == "LOGIN" || c.Auth == "AUTODISCOVER" || c.Auth == "CUSTOM" || c.Auth == "PLAIN-NOENC" || c.Auth == "LOGIN-NOENC"
		if passwordAuth && !exempt {
			for enc, needle := range secretNeedles(c.Pass) {
				if bytes.Contains(ct, []byte(needle)) {
					vs = append(vs, core.V("password-in-clear", "the password (%s form) left the process outside TLS (policy %s, auth %s, host %s)\n%s", enc, c.Policy, c.Auth, c.Host, tr))
					break
				}
			}
		}
		if c.Auth == "AUTODISCOVER" && !s.TLSOK {
			for _, cmd := range s.AuthCmds {
				f := strings.Fields(cmd)
				if len(f) >= 2 {
					switch strings.ToUpper(f[1]) {
					case "PLAIN", "LOGIN", "XOAUTH2":
						vs = append(vs, core.V("autodiscover-reveals-password", "auto-discovery chose %s on an unencrypted connection (advertised: %q)", f[1], c.AuthList))
					}
				}
			}
		}
	}
	// evidence
	deviates := !c.StartTLS || c.TLSReply != "ok" || c.Handshake != "ok"
	if deviates || c.Policy != "none" {
		rec.NonTrivial(core.Join(c.Policy, c.Auth, c.Host, c.StartTLS, c.TLSReply, c.Handshake, c.AuthList, c.Opt, strings.Join(c.Setup, ">"), c.Prior, c.DefaultPorts, c.SetupAfterPrior, c.SharedTLSConfigWith))
		rec.Sample(c.Policy+"/"+c.Handshake+"/"+c.TLSReply, map[string]interface{}{"case": c, "error": fmt.Sprint(callErr), "sessions": len(sessions)})
	}
	rec.Class("policy:" + c.Policy)
	rec.Class("handshake:" + c.Handshake)
	return vs
}

var c07AuthTypes = []string{"", "PLAIN", "PLAIN-NOENC", "LOGIN", "LOGIN-NOENC", "CRAM-MD5", "XOAUTH2", "SCRAM-SHA-1", "SCRAM-SHA-1-PLUS", "SCRAM-SHA-256", "SCRAM-SHA-256-PLUS", "AUTODISCOVER", "CUSTOM"}
var c07AuthLists = []string{"PLAIN LOGIN", "PLAIN LOGIN CRAM-MD5 XOAUTH2 SCRAM-SHA-1 SCRAM-SHA-256 SCRAM-SHA-1-PLUS SCRAM-SHA-256-PLUS",
	// a server that announces, next to real mechanisms, tokens that happen to be the library's own names
	// of its authentication types
	"PLAIN LOGIN PLAIN-NOENC LOGIN-NOENC AUTODISCOVER CUSTOM NOAUTH", "LOGIN", "XOAUTH2 PLAIN", "CRAM-MD5 PLAIN", "", "-"}

func c07Cases(full bool) []c07Case {
	var out []c07Case
	type beh struct {
		adv       bool
		reply, hs string
	}
	behs := []beh{{true, "ok", "ok"}, {false, "ok", "ok"}, {true, "4yz", "ok"}, {true, "5yz", "ok"}, {true, "garbage", "ok"}, {true, "ok", "wrongname"}, {true, "ok", "untrusted"}, {true, "ok", "garbage"}, {false, "ok", "untrusted"}}
	for _, pol := range []string{"mandatory", "default", "opportunistic", "none", "implicit"} {
		for _, auth := range c07AuthTypes {
			for _, host := range []string{"127.0.0.1", "127.0.0.2"} {
				for _, b := range behs {
					lists := c07AuthLists
					if !full {
						lists = c07AuthLists[:3]
					}
					if auth == "" {
						lists = lists[:1]
					}
					for _, al := range lists {
						out = append(out, c07Case{Policy: pol, Auth: auth, Host: host, StartTLS: b.adv, TLSReply: b.reply, Handshake: b.hs, AuthList: al})
					}
				}
			}
		}
	}
	return out
}

// c07LifecycleCases: the policy established through setter sequences instead of an option, and the
// judged connection being the SECOND one of the same Client.
func c07LifecycleCases() []c07Case {
	var out []c07Case
	type beh struct {
		adv       bool
		reply, hs string
	}
	// the authentication changed through a setter after a password-revealing one was configured first
	for _, first := range []string{"PLAIN-NOENC", "LOGIN-NOENC", "CUSTOM-NOENC"} {
		for _, auth := range []string{"PLAIN", "LOGIN", "CUSTOM", "AUTODISCOVER", "CRAM-MD5", ""} {
			for _, pol := range []string{"none", "opportunistic", "mandatory"} {
				for _, host := range []string{"127.0.0.1", "127.0.0.2"} {
					for _, adv := range []bool{false, true} {
						out = append(out, c07Case{Policy: pol, AuthFirst: first, Auth: auth, Host: host, StartTLS: adv, TLSReply: "ok", Handshake: "ok", AuthList: "PLAIN LOGIN CRAM-MD5"})
					}
				}
			}
		}
	}
	// the package-level QuickSend (its own Client: opportunistic TLS, auto-discovery)
	for _, host := range []string{"127.0.0.1", "127.0.0.2"} {
		for _, auth := range []string{"AUTODISCOVER", ""} {
			for _, b := range []beh{{true, "ok", "ok"}, {false, "ok", "ok"}, {true, "4yz", "ok"}, {true, "5yz", "ok"}, {true, "garbage", "ok"}, {true, "ok", "wrongname"}, {true, "ok", "untrusted"}, {true, "ok", "garbage"}} {
				for _, al := range c07AuthLists[:4] {
					out = append(out, c07Case{Policy: "opportunistic", Quick: true, Auth: auth, Host: host, StartTLS: b.adv, TLSReply: b.reply, Handshake: b.hs, AuthList: al})
				}
			}
		}
	}
	// the application dials again WITHOUT having closed the first connection, after tightening the policy
	for _, host := range []string{"127.0.0.1", "127.0.0.2"} {
		for _, auth := range []string{"", "PLAIN", "CRAM-MD5"} {
			for _, adv := range []bool{false, true} {
				for _, setup := range [][]string{{"policy:mandatory"}, {"portpolicy:mandatory"}} {
					for _, opt := range []string{"none", "opportunistic"} {
						out = append(out, c07Case{Policy: "mandatory", Opt: opt, Setup: setup, Prior: true, SetupAfterPrior: true, PriorOpen: true, Auth: auth, Host: host, StartTLS: adv, TLSReply: "ok", Handshake: "ok", AuthList: "PLAIN LOGIN CRAM-MD5"})
					}
				}
				for _, setup := range [][]string{{"ssl:true"}} {
					out = append(out, c07Case{Policy: "implicit", Opt: "none", Setup: setup, Prior: true, SetupAfterPrior: true, PriorOpen: true, Auth: auth, Host: host, StartTLS: adv, TLSReply: "ok", Handshake: "garbage", AuthList: "PLAIN LOGIN"})
				}
				// ... or without any change (the second connection obeys the same policy as the first)
				for _, pol := range []string{"mandatory", "opportunistic", "none"} {
					out = append(out, c07Case{Policy: pol, Prior: true, PriorOpen: true, Auth: auth, Host: host, StartTLS: adv, TLSReply: "ok", Handshake: "ok", AuthList: "PLAIN LOGIN CRAM-MD5"})
				}
			}
		}
	}
	for _, pol := range []string{"mandatory", "opportunistic", "none"} {
		setups := [][]string{{"policy:" + pol}, {"portpolicy:" + pol}, {"portpolicy:opportunistic", "portpolicy:" + pol}, {"policy:none", "portpolicy:" + pol},
			{"policy:opportunistic", "policy:" + pol}, {"ssl:true", "ssl:false", "policy:" + pol}, {"sslport:true", "sslport:false", "portpolicy:" + pol}}
		for _, setup := range setups {
			for _, opt := range []string{"", "none", "opportunistic"} {
				for _, b := range []beh{{false, "ok", "ok"}, {true, "ok", "ok"}, {true, "4yz", "ok"}} {
					for _, auth := range []string{"", "PLAIN"} {
						for _, host := range []string{"127.0.0.1", "127.0.0.2"} {
							out = append(out, c07Case{Policy: pol, Opt: opt, Setup: setup, Auth: auth, Host: host, StartTLS: b.adv, TLSReply: b.reply, Handshake: b.hs, AuthList: "PLAIN LOGIN"})
						}
					}
				}
			}
		}
	}
	for _, setup := range [][]string{{"policy:none", "ssl:true"}, {"sslport:true"}, {"portpolicy:none", "sslport:true"},
		// implicit TLS first, a STARTTLS policy afterwards: the policy says nothing about implicit TLS
		{"ssl:true", "policy:none"}, {"sslport:true", "policy:none"}, {"ssl:true", "policy:opportunistic"}, {"ssl:true", "portpolicy:none"}, {"ssl:true", "policy:mandatory"}} {
		for _, host := range []string{"127.0.0.1", "127.0.0.2"} {
			for _, hs := range []string{"ok", "garbage"} {
				out = append(out, c07Case{Policy: "implicit", Opt: "none", Setup: setup, Auth: "PLAIN", Host: host, StartTLS: false, TLSReply: "ok", Handshake: hs, AuthList: "PLAIN LOGIN"})
			}
		}
	}
	for _, opt := range []string{"implicit+none", "implicit+opportunistic"} {
		for _, setup := range [][]string{nil, {"policy:none"}, {"policy:opportunistic"}} {
			for _, host := range []string{"127.0.0.1", "127.0.0.2"} {
				for _, hs := range []string{"ok", "garbage"} {
					out = append(out, c07Case{Policy: "implicit", Opt: opt, Setup: setup, Auth: "PLAIN", Host: host, StartTLS: false, TLSReply: "ok", Handshake: hs, AuthList: "PLAIN LOGIN"})
				}
			}
		}
	}
	// the policy changes BETWEEN two connections of one Client: implicit TLS switched on after a first,
	// plain connection (the judged server is a plain-text speaker: the client must open with a TLS record)
	for _, host := range []string{"127.0.0.1", "127.0.0.2"} {
		for _, setup := range [][]string{{"ssl:true"}, {"sslport:true"}} {
			for _, opt := range []string{"none", "opportunistic"} {
				out = append(out, c07Case{Policy: "implicit", Opt: opt, Setup: setup, Prior: true, SetupAfterPrior: true, Auth: "PLAIN", Host: host, StartTLS: false, TLSReply: "ok", Handshake: "garbage", AuthList: "PLAIN LOGIN"})
			}
		}
		// ... and a weaker policy made mandatory after a first connection
		for _, setup := range [][]string{{"policy:mandatory"}, {"portpolicy:mandatory"}} {
			out = append(out, c07Case{Policy: "mandatory", Opt: "none", Setup: setup, Prior: true, SetupAfterPrior: true, Auth: "PLAIN", Host: host, StartTLS: false, TLSReply: "ok", Handshake: "ok", AuthList: "PLAIN LOGIN"})
		}
		// a *tls.Config without ServerName shared with a Client for another host: the certificate is
		// still verified against THIS client's host
		for _, pol := range []string{"mandatory", "opportunistic"} {
			out = append(out, c07Case{Policy: pol, SharedTLSConfigWith: "some.other.host.example", Auth: "PLAIN", Host: host, StartTLS: true, TLSReply: "ok", Handshake: "wrongname", AuthList: "PLAIN LOGIN"})
			out = append(out, c07Case{Policy: pol, SharedTLSConfigWith: "some.other.host.example", Auth: "PLAIN", Host: host, StartTLS: true, TLSReply: "ok", Handshake: "ok", AuthList: "PLAIN LOGIN"})
		}
	}
	for _, pol := range []string{"mandatory", "opportunistic", "none"} {
		for _, host := range []string{"127.0.0.1", "127.0.0.2"} {
			for _, auth := range []string{"", "AUTODISCOVER", "PLAIN", "LOGIN", "CRAM-MD5"} {
				for _, b := range []beh{{false, "ok", "ok"}, {true, "4yz", "ok"}, {true, "ok", "ok"}} {
					for _, al := range []string{"PLAIN LOGIN CRAM-MD5", "PLAIN LOGIN"} {
						out = append(out, c07Case{Policy: pol, Prior: true, Auth: auth, Host: host, StartTLS: b.adv, TLSReply: b.reply, Handshake: b.hs, AuthList: al})
					}
				}
			}
		}
	}
	return out
}

func c07Describe() {
	rec := core.Rec("C07")
	rec.Rule = "real TCP sessions (default dialers, the client's DEFAULT tls.Config with the harness CA installed as the only system root through SSL_CERT_FILE) of DialAndSend against the reference server on 127.0.0.1 (a localhost name by go-mail's rule) and 127.0.0.2 (not): product of TLS policy {mandatory, default (no option), opportunistic, none, implicit} x 13 auth types x host x server behaviour {STARTTLS advertised or not; STARTTLS answered 220 / 454 / 502 / garbage; handshake ok / certificate for another name / certificate of an untrusted CA / garbage bytes; plain-text speaker on the implicit-TLS port; implicit TLS configured with a fallback port (WithSSLPort) where the primary port refuses and a plain-text server listens on the fallback port 25} x advertised AUTH lists (3 in quick, 8 in thorough, incl. only-cleartext mechanisms, empty, absent, and a list that carries the library's own type names PLAIN-NOENC / LOGIN-NOENC / AUTODISCOVER / CUSTOM / NOAUTH as mechanism tokens). Default-port cases (no port option: a port policy leaves a fallback port 25 behind, a later policy setter makes TLS mandatory, the primary port 587 is closed and a plain-text server answers on 25). Policy changes between two connections of one Client (implicit TLS switched on, a weak policy made mandatory), and a *tls.Config without ServerName that was first given to a Client for another host. The package-level QuickSend (own Client: opportunistic TLS, auto-discovered authentication) x host x server behaviour x 4 AUTH lists. Lifecycle cases: the policy established by a sequence of setter calls (SetTLSPolicy, SetTLSPortPolicy, SetSSL, SetSSLPort after other policies were set first, with or without a weaker policy option) instead of an option, and the judged DialAndSend being the SECOND connection of one Client whose first connection (DialWithContext + Close) met a well-behaved server at the same address offering STARTTLS with a valid certificate and AUTH PLAIN LOGIN. Fresh random 16-character credentials per case. Both tiers enumerate their product completely (quick with 3 AUTH lists, thorough with 8). TestC07Names adds, over in-memory connections, 18 host names around go-mail's localhost rule (exact names, names that merely start/end with or contain 'localhost', 127.x look-alikes) x {none, opportunistic without STARTTLS} x {PLAIN, LOGIN, AUTODISCOVER} x 3 AUTH lists. " +
		"Oracle on the byte tap: under mandatory policy the cleartext consists of EHLO/HELO, STARTTLS and QUIT lines only, no session continues after a handshake with an invalid certificate, nothing but QUIT (or TLS records) follows a failed handshake; implicit TLS: first byte is a TLS record and no SMTP verb in clear; under every policy the PLAIN/LOGIN password never appears in the cleartext raw, hex or base64 (3 alignments) unless the type is *-NOENC or the host is localhost; AUTODISCOVER never issues AUTH PLAIN/LOGIN/XOAUTH2 on an unencrypted connection. " +
		"Non-trivial: the server deviates from the happy path or the policy is not 'none'. Distinct by the case tuple."
	rec.Assumptions = []string{"Go's root loader honours SSL_CERT_FILE/SSL_CERT_DIR (Linux)", "127.0.0.2 is bindable on the loopback interface"}
}

func TestC07Enum(t *testing.T) {
	if core.ReplayArg != "" {
		t.Skip()
	}
	c07Describe()
	p := core.Prop[c07Case]{ID: "C07", Test: "TestC07", Run: c07Run}
	cases := append(c07Cases(core.Thorough()), c07LifecycleCases()...)
	stride := 1
	for i, c := range cases {
		if i%core.Shards != core.Shard {
			continue
		}
		if (i/core.Shards)%stride != (core.Seed%stride+stride)%stride {
			continue
		}
		c.User = "user" + core.Hash(fmt.Sprint("u", i, core.Seed))
		c.Pass = core.Hash(fmt.Sprint("p", i, core.Seed)) + core.Hash(fmt.Sprint("q", i, core.Seed))[:4]
		core.Rec("C07").AddExtra("enumerated_product_cases", 1)
		if v := p.RunOne(c); v != nil {
			t.Fatalf("VIOLATION-DETAIL property=C07 %s", v)
		}
	}
	if core.Shard == 0 {
		// port 25 can only be bound by one process at a time: these cases run in shard 0 only
		k := 0
		for _, host := range []string{"127.0.0.1", "127.0.0.2"} {
			for _, auth := range []string{"", "PLAIN", "LOGIN", "AUTODISCOVER", "CRAM-MD5"} {
				for _, al := range []string{"PLAIN LOGIN", "LOGIN PLAIN CRAM-MD5"} {
					k++
					c := c07Case{Policy: "implicit-fallback", Auth: auth, Host: host, StartTLS: k%2 == 0, TLSReply: "ok", Handshake: "ok", AuthList: al,
						User: "user" + core.Hash(fmt.Sprint("fu", k)), Pass: core.Hash(fmt.Sprint("fp", k, core.Seed)) + "Qq7"}
					core.Rec("C07").AddExtra("implicit_tls_fallback_port_cases", 1)
					if v := p.RunOne(c); v != nil {
						t.Fatalf("VIOLATION-DETAIL property=C07 %s", v)
					}
				}
			}
		}
	}
	if core.Shard == 0 {
		// default ports: a port policy leaves a fallback port behind, a later policy setter does not
		// clear it; the primary port (587) is closed, the plain-text server answers on 25
		k := 0
		for _, host := range []string{"127.0.0.1", "127.0.0.2"} {
			for _, setup := range [][]string{{"portpolicy:opportunistic", "policy:mandatory"}, {"portpolicy:opportunistic", "portpolicy:mandatory"}, {"sslport:true", "ssl:false", "policy:mandatory"}, {"portpolicy:opportunistic"}, {"portpolicy:mandatory"}} {
				for _, adv := range []bool{false, true} {
					k++
					pol := "mandatory"
					if len(setup) == 1 && setup[0] == "portpolicy:opportunistic" {
						pol = "opportunistic"
					}
					c := c07Case{Policy: pol, Setup: setup, DefaultPorts: true, Auth: "PLAIN", Host: host, StartTLS: adv, TLSReply: map[bool]string{false: "ok", true: "4yz"}[adv], Handshake: "ok", AuthList: "PLAIN LOGIN",
						User: "user" + core.Hash(fmt.Sprint("du", k)), Pass: core.Hash(fmt.Sprint("dp", k, core.Seed)) + "Zz9"}
					core.Rec("C07").AddExtra("default_port_cases", 1)
					if v := p.RunOne(c); v != nil {
						t.Fatalf("VIOLATION-DETAIL property=C07 %s", v)
					}
				}
			}
		}
	}
	core.Rec("C07").Exhaustive = true
}

func TestC07(t *testing.T) {
	c07Describe()
	cases := append(c07Cases(true), c07LifecycleCases()...)
	core.Prop[c07Case]{ID: "C07", Test: "TestC07", Run: c07Run, Gen: func(t *rapid.T) c07Case {
		c := cases[rapid.IntRange(0, len(cases)-1).Draw(t, "case")]
		if len(c.Setup) == 0 && c.Policy != "default" && c.Policy != "implicit" && rapid.IntRange(0, 2).Draw(t, "second") == 0 {
			c.Prior = true
		}
		c.User = "user" + rapid.StringMatching(`[a-z0-9]{6}`).Draw(t, "user")
		c.Pass = rapid.StringMatching(`[A-Za-z0-9]{16}`).Draw(t, "pass")
		return c
	}}.Check(t)
}

// --- host-name variant -------------------------------------------------------------------------
//
// The TCP product above can only use IP literals. Which *names* count as "a localhost server" is
// checked here over in-memory connections (WithDialContextFunc accepts any host name).

type c07NameCase struct {
	Host     string `json:"host"`
	Policy   string `json:"policy"` // none | opportunistic (STARTTLS is never offered: the connection stays clear)
	Auth     string `json:"auth"`   // PLAIN | LOGIN | AUTODISCOVER
	AuthList string `json:"auth_list"`
	User     string `json:"user"`
	Pass     string `json:"pass"`
}

// c07IsLocalName is deliberately generous: whatever could reasonably be called a localhost name is
// exempt, so that only a password sent to a clearly foreign name is reported.
func c07IsLocalName(h string) bool {
	l := strings.ToLower(strings.TrimSuffix(h, "."))
	return l == "localhost" || l == "127.0.0.1" || l == "::1" || l == "[::1]" || l == "localhost.localdomain" || l == "ip6-localhost" || l == "ip6-loopback"
}

func c07NameRun(c c07NameCase) []*core.Violation {
	rec := core.Rec("C07")
	caps := []string{"8BITMIME", strings.TrimSpace("AUTH " + c.AuthList)}
	srv := refsmtp.NewServer(refsmtp.Script{Caps: caps, NoGreetProbe: true})
	srv.Auth = c05Auth
	d := &refsmtp.Dialer{Srv: srv}
	opts := []mail.Option{mail.WithDialContextFunc(d.DialContext), mail.WithTimeout(3 * time.Second), mail.WithHELO("client.verif.example"),
		mail.WithSMTPAuth(mail.SMTPAuthType(c.Auth)), mail.WithUsername(c.User), mail.WithPassword(c.Pass)}
	if c.Policy == "none" {
		opts = append(opts, mail.WithTLSPolicy(mail.NoTLS))
	} else {
		opts = append(opts, mail.WithTLSPolicy(mail.TLSOpportunistic))
	}
	cl, err := mail.NewClient(c.Host, opts...)
	if err != nil {
		rec.Skip()
		return nil
	}
	r := watchdog(20*time.Second, d, func() error {
		return cl.DialAndSend(simpleMsg(1, 1, "quoted-printable"))
	})
	d.Shutdown()
	if r.Panic != nil {
		return []*core.Violation{core.V("panic", "%v", r.Panic)}
	}
	if r.TimedOut || len(d.Sessions) == 0 {
		rec.AddExtra("inconclusive_watchdog", 1)
		return nil
	}
	var vs []*core.Violation
	local := c07IsLocalName(c.Host)
	for _, s := range d.Sessions {
		if !local {
			for enc, needle := range secretNeedles(c.Pass) {
				if bytes.Contains(s.Cleartext, []byte(needle)) {
					vs = append(vs, core.V("password-in-clear", "the password (%s form) was sent in clear to host %q, which is not a localhost name (policy %s, auth %s)\n%s", enc, c.Host, c.Policy, c.Auth, s.Transcript(20)))
					break
				}
			}
		}
		if c.Auth == "AUTODISCOVER" {
			for _, cmd := range s.AuthCmds {
				f := strings.Fields(cmd)
				if len(f) >= 2 {
					switch strings.ToUpper(f[1]) {
					case "PLAIN", "LOGIN", "XOAUTH2":
						vs = append(vs, core.V("autodiscover-reveals-password", "auto-discovery chose %s on an unencrypted connection to %q (advertised: %q)", f[1], c.Host, c.AuthList))
					}
				}
			}
		}
		if len(s.AuthCmds) > 0 {
			rec.AddExtra("names_auth_commands_seen", 1)
		}
	}
	rec.NonTrivial(core.Join("name", c.Host, c.Policy, c.Auth, c.AuthList))
	rec.AddExtra("host_name_cases", 1)
	return vs
}

var c07Hosts = []string{"localhost", "127.0.0.1", "::1", "localhost.example.com", "localhost.mail.example.org", "localhost4", "localhostx.example", "LocalHosting.example.org",
	"xlocalhost", "my-localhost", "127.0.0.1.example.com", "127.0.0.10", "127.0.0.2", "::10", "mail.example.com", "relay.localhost.example", "localhos", "1.127.0.0.1"}

func TestC07Names(t *testing.T) {
	c07Describe()
	p := core.Prop[c07NameCase]{ID: "C07", Test: "TestC07Names", Run: c07NameRun}
	if core.ReplayArg != "" {
		p.Check(t)
		return
	}
	if core.Shard == 0 {
		p.Regress(t)
	}
	i := 0
	for _, host := range c07Hosts {
		for _, pol := range []string{"none", "opportunistic"} {
			for _, auth := range []string{"PLAIN", "LOGIN", "AUTODISCOVER"} {
				for _, al := range []string{"PLAIN LOGIN", "LOGIN PLAIN XOAUTH2", "PLAIN LOGIN CRAM-MD5", "PLAIN LOGIN PLAIN-NOENC LOGIN-NOENC", "LOGIN LOGIN-NOENC"} {
					i++
					if i%core.Shards != core.Shard {
						continue
					}
					c := c07NameCase{Host: host, Policy: pol, Auth: auth, AuthList: al, User: "user" + core.Hash(fmt.Sprint(i)), Pass: core.Hash(fmt.Sprint("pw", i, core.Seed)) + "Zz9"}
					if v := p.RunOne(c); v != nil {
						t.Fatalf("VIOLATION-DETAIL property=C07 %s", v)
					}
				}
			}
		}
	}
}
