package props

import (
	"bytes"
	"errors"
	"fmt"
	"io"
	"os"
	"path/filepath"
	"strings"
	"sync/atomic"
	"testing"
	"time"

	mail "github.com/wneessen/go-mail"
	"pgregory.net/rapid"

	"verif/harness/core"
	"verif/harness/gen"
)

// C09 — EML parsing is total.

type c09Case struct {
	Doc    []byte `json:"doc"`
	Reader string `json:"reader"` // whole | onebyte | errat | dataerr | zeros | string
	K      int    `json:"k,omitempty"`
}

var errC09 = errors.New("verif: injected reader failure")

var c09FileSeq atomic.Int64

type c09Reader struct {
	data  []byte
	pos   int
	mode  string
	k     int
	zeros int
}

func (r *c09Reader) Read(p []byte) (int, error) {
	if len(p) == 0 {
		return 0, nil
	}
	switch r.mode {
	case "zeros":
		if r.zeros < r.k {
			r.zeros++
			return 0, nil
		}
	case "errat":
		if r.pos >= r.k {
			return 0, errC09
		}
	case "timeoutat":
		// a connection whose read deadline has passed: the same time-out error on every further Read
		if r.pos >= r.k {
			return 0, os.ErrDeadlineExceeded
		}
	}
	if r.pos >= len(r.data) {
		return 0, io.EOF
	}
	n := len(p)
	if r.mode == "onebyte" {
		n = 1
	}
	if (r.mode == "errat" || r.mode == "timeoutat") && r.pos+n > r.k {
		n = r.k - r.pos
	}
	if r.pos+n > len(r.data) {
		n = len(r.data) - r.pos
	}
	copy(p, r.data[r.pos:r.pos+n])
	r.pos += n
	if r.mode == "dataerr" && r.pos >= len(r.data) {
		return n, io.EOF // (n > 0, err) together
	}
	if r.mode == "errat" && r.pos >= r.k {
		return n, errC09 // data and error together
	}
	return n, nil
}

func c09Parse(c *c09Case) (panicked interface{}, stack string, err error) {
	defer func() {
		if p := recover(); p != nil {
			panicked = p
		}
	}()
	if c.Reader == "string" {
		_, err = mail.EMLToMsgFromString(string(c.Doc))
		return
	}
	if c.Reader == "file-missing" || c.Reader == "file-dir" {
		// the file entry point with a path that cannot be read: a name that does not exist, a directory
		path := filepath.Join(env.Dir, fmt.Sprintf("c09-gone-%d-%d.eml", os.Getpid(), c09FileSeq.Add(1)))
		if c.Reader == "file-dir" {
			if merr := os.Mkdir(path, 0o700); merr != nil {
				return nil, "", nil
			}
			defer os.Remove(path)
		}
		var m *mail.Msg
		m, err = mail.EMLToMsgFromFile(path)
		if err == nil {
			err = fmt.Errorf("VERIF-NO-ERROR: EMLToMsgFromFile(%s path) returned a message (%v) and no error", c.Reader, m != nil)
		}
		return
	}
	if c.Reader == "file" {
		path := filepath.Join(env.Dir, fmt.Sprintf("c09-%d-%d.eml", os.Getpid(), c09FileSeq.Add(1)))
		if werr := os.WriteFile(path, c.Doc, 0o600); werr != nil {
			return nil, "", nil
		}
		defer os.Remove(path)
		_, err = mail.EMLToMsgFromFile(path)
		return
	}
	var r io.Reader
	switch c.Reader {
	case "whole":
		r = bytes.NewReader(c.Doc)
	default:
		r = &c09Reader{data: c.Doc, mode: c.Reader, k: c.K}
	}
	_, err = mail.EMLToMsgFromReader(r)
	return
}

func c09RunTimed(c *c09Case, limit time.Duration) (panicked interface{}, err error, timedOut bool) {
	type res struct {
		p   interface{}
		err error
	}
	ch := make(chan res, 1)
	go func() {
		p, _, e := c09Parse(c)
		ch <- res{p, e}
	}()
	select {
	case r := <-ch:
		return r.p, r.err, false
	case <-time.After(limit):
		return nil, nil, true
	}
}

func c09Run(c c09Case) []*core.Violation {
	rec := core.Rec("C09")
	p, err, timedOut := c09RunTimed(&c, 10*time.Second)
	if timedOut {
		// must repeat in isolation before it is reported
		for i := 0; i < 2; i++ {
			if _, _, again := c09RunTimed(&c, 10*time.Second); !again {
				rec.AddExtra("unrepeatable_timeouts", 1)
				return nil
			}
		}
		// the abandoned parser goroutines keep spinning: report and leave the process at once
		v := core.V("no-termination", "parsing did not return within 10 s, three times in a row (reader %s), on a %d-byte input", c.Reader, len(c.Doc))
		v.Fatal = true
		return []*core.Violation{v}
	}
	if p != nil {
		return []*core.Violation{core.V("panic", "EML parsing panicked (reader %s): %v", c.Reader, p)}
	}
	if err != nil && strings.HasPrefix(err.Error(), "VERIF-NO-ERROR") {
		// "a message or an error": a path that cannot be read gives no message
		return []*core.Violation{core.V("no-error", "%s", strings.TrimPrefix(err.Error(), "VERIF-NO-ERROR: "))}
	}
	low := bytes.ToLower(c.Doc)
	reaches := bytes.Contains(low, []byte("multipart/")) && bytes.Contains(low, []byte("boundary=")) || bytes.Contains(low, []byte("content-disposition"))
	if reaches {
		h := core.Hash(string(c.Doc))
		rec.NonTrivial(h + c.Reader)
		rec.Sample(fmt.Sprintf("%s/%v", c.Reader, err == nil), map[string]interface{}{"reader": c.Reader, "bytes": len(c.Doc), "error": fmt.Sprint(err), "head": clipS(string(c.Doc))})
	}
	if err == nil {
		rec.Class("parsed-ok")
	} else {
		rec.Class("rejected")
	}
	rec.Class("reader:" + c.Reader)
	return nil
}

func c09Gen(t *rapid.T) c09Case {
	var doc string
	switch rapid.IntRange(0, 9).Draw(t, "source") {
	case 0: // a rendering of a real message program
		spec := gen.Program(t, gen.GenOpts{Encodings: []string{"quoted-printable", "base64", "8bit"}, MaxParts: 2, MaxEmbeds: 2, MaxAttach: 2, AllowNoBody: true, TextOnlyQP: true, Sources: []string{"reader"}, Vias: []string{"string"}})
		if b, err := gen.Build(spec, env); err == nil {
			var buf bytes.Buffer
			if _, err := b.Msg.WriteTo(&buf); err == nil {
				doc = buf.String()
			}
		}
	case 1: // arbitrary bytes
		doc = string(rapid.SliceOfN(rapid.Byte(), 0, 300).Draw(t, "bytes"))
	default:
		doc = gen.EMLDoc(t)
	}
	n := rapid.IntRange(0, 6).Draw(t, "nmut")
	for i := 0; i < n; i++ {
		doc = gen.MutateEML(t, doc, i)
	}
	if len(doc) > 64*1024 {
		doc = doc[:64*1024]
	}
	c := c09Case{Doc: []byte(doc)}
	c.Reader = rapid.SampledFrom([]string{"whole", "whole", "string", "file", "onebyte", "errat", "dataerr", "zeros", "timeoutat", "file-missing", "file-dir"}).Draw(t, "reader")
	switch c.Reader {
	case "errat", "timeoutat":
		c.K = rapid.IntRange(0, len(doc)).Draw(t, "errat")
	case "zeros":
		c.K = rapid.IntRange(1, 50).Draw(t, "zeros")
	}
	return c
}

func c09Describe() {
	rec := core.Rec("C09")
	rec.Rule = "inputs from three sources: (1) a grammar-based generator of EML documents (header lists with valid and broken addresses/dates/encoded-words; single-part and nested multipart bodies up to depth 3, all transfer encodings, file parts with quoted/unquoted/missing/extra Content-Disposition parameters, reused boundaries, missing close delimiters), (2) renderings of generated go-mail messages, (3) arbitrary bytes; each followed by 0..6 structure-aware mutations (parameter value emptied / unquoted / half-quoted / oversized, truncation at any byte, range deletion, line duplication, CRLF->LF/CR, insertion of hostile header constants, header name without value, transfer encodings swapped, boundary damage, byte flips); reader behaviours: whole buffer, string entry point, file entry point (EMLToMsgFromFile, also with a path that does not exist or is a directory), 1-byte reads, error at offset k (with data), (n>0, EOF) together, up to 50 leading (0, nil) reads. Thorough adds native coverage-guided fuzzing of EMLToMsgFromReader seeded with the repository's testdata/*.eml and a dictionary of the hostile constants. " +
		"Oracle: the call returns (message or error) without panic and within 10 s (three orders of magnitude above the normal run time; a time-out must repeat three times in a row). Non-trivial: the input has a multipart content type with a boundary parameter or a Content-Disposition field, i.e. reaches the multipart / attachment code. Distinct by (input hash, reader)."
	rec.Assumptions = []string{"inputs are at most 64 KiB", "termination is observed with a generous wall-clock bound (10 s for inputs <= 64 KiB), not proved"}
}

func TestC09(t *testing.T) {
	c09Describe()
	core.Prop[c09Case]{ID: "C09", Test: "TestC09", Gen: c09Gen, Run: c09Run}.Check(t)
}

// TestC09Corpus runs the repository's own EML fixtures and the hostile constants through every
// reader behaviour (deterministic, seconds).
func TestC09Corpus(t *testing.T) {
	if core.ReplayArg != "" || core.Shard != 0 {
		t.Skip()
	}
	c09Describe()
	p := core.Prop[c09Case]{ID: "C09", Test: "TestC09", Run: c09Run}
	var docs []string
	for _, d := range gen.EMLDictionary {
		docs = append(docs, d, "Content-Type: multipart/mixed; boundary=b\r\n\r\n--b\r\n"+d+"\r\nbody\r\n--b--\r\n", "From: a@b.c\r\n"+d+"\r\nbody")
	}
	docs = append(docs, repoEMLFixtures()...)
	for _, d := range docs {
		for _, rd := range []string{"whole", "string", "file", "onebyte", "dataerr"} {
			core.Rec("C09").AddExtra("corpus_cases", 1)
			if v := p.RunOne(c09Case{Doc: []byte(d), Reader: rd}); v != nil {
				t.Fatalf("VIOLATION-DETAIL property=C09 %s", v)
			}
		}
		for k := 0; k <= len(d) && k < 400; k += 7 {
			if v := p.RunOne(c09Case{Doc: []byte(d), Reader: "timeoutat", K: k}); v != nil {
				t.Fatalf("VIOLATION-DETAIL property=C09 %s", v)
			}
			if v := p.RunOne(c09Case{Doc: []byte(d), Reader: "errat", K: k}); v != nil {
				t.Fatalf("VIOLATION-DETAIL property=C09 %s", v)
			}
		}
	}
}

func repoEMLFixtures() []string {
	var out []string
	for _, dir := range []string{"/repo/testdata"} {
		entries, err := osReadDir(dir)
		if err != nil {
			continue
		}
		for _, e := range entries {
			if strings.HasSuffix(e, ".eml") {
				if b, err := osReadFile(dir + "/" + e); err == nil {
					out = append(out, string(b))
				}
			}
		}
	}
	return out
}
