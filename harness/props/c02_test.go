package props

import (
	"bytes"
	"fmt"
	"strings"
	"testing"

	mail "github.com/wneessen/go-mail"
	"pgregory.net/rapid"

	"verif/harness/core"
	"verif/harness/gen"
	"verif/harness/mimeread"
	"verif/harness/oracle"
)

// C02 — no caller-supplied text can alter the header block.

type c02Addr struct {
	Setter string `json:"setter"`
	Name   string `json:"name"`
	Addr   string `json:"addr"`
}

type c02Case struct {
	Spec         gen.MsgSpec `json:"spec"`
	MessageID    *string     `json:"message_id,omitempty"`
	Organization *string     `json:"organization,omitempty"`
	UserAgent    *string     `json:"user_agent,omitempty"`
	Addrs        []c02Addr   `json:"addrs,omitempty"`
	Importance   string      `json:"importance,omitempty"`
	// Renders: how often the same Msg is rendered (structure judged every time); 0/1 = once.
	Renders int `json:"renders,omitempty"`
	Bulk         bool        `json:"bulk,omitempty"`
}

type c02Box struct{ name, addr string }

// quoteName renders name as an RFC 5322 quoted-string.
func quoteName(name string) string {
	var sb strings.Builder
	sb.WriteByte('"')
	for i := 0; i < len(name); i++ {
		if name[i] == '"' || name[i] == '\\' {
			sb.WriteByte('\\')
		}
		sb.WriteByte(name[i])
	}
	sb.WriteByte('"')
	return sb.String()
}

func c02Texts(c *c02Case) []string {
	var out []string
	if c.Spec.Subject != nil {
		out = append(out, *c.Spec.Subject)
	}
	for _, h := range c.Spec.Headers {
		out = append(out, h.Values...)
	}
	for _, p := range []*string{c.MessageID, c.Organization, c.UserAgent} {
		if p != nil {
			out = append(out, *p)
		}
	}
	for _, a := range c.Addrs {
		out = append(out, a.Name)
	}
	for _, p := range c.Spec.Parts {
		out = append(out, p.Desc)
	}
	for _, f := range append(append([]gen.FileSpec{}, c.Spec.Embeds...), c.Spec.Attachments...) {
		out = append(out, f.Name, f.Desc, f.CID)
	}
	return out
}

func c02Run(c c02Case) []*core.Violation {
	rec := core.Rec("C02")
	spec := c.Spec
	b, err := gen.Build(&spec, env)
	if err != nil {
		rec.Skip()
		return nil
	}
	m := b.Msg
	extras := oracle.TopExtras{}
	type textExpect struct {
		field, want string
		values      []string
	}
	var texts []textExpect
	if spec.Subject != nil {
		texts = append(texts, textExpect{"Subject", *spec.Subject, nil})
	}
	for _, h := range spec.Headers {
		texts = append(texts, textExpect{h.Name, strings.Join(h.Values, ", "), h.Values})
	}
	if c.MessageID != nil {
		m.SetMessageIDWithValue(*c.MessageID)
		texts = append(texts, textExpect{"Message-ID", "<" + *c.MessageID + ">", nil})
	}
	if c.Organization != nil {
		m.SetOrganization(*c.Organization)
		extras.Fields = append(extras.Fields, "Organization")
		texts = append(texts, textExpect{"Organization", *c.Organization, nil})
	}
	if c.UserAgent != nil {
		m.SetUserAgent(*c.UserAgent)
		if spec.NoUA {
			extras.Fields = append(extras.Fields, "User-Agent", "X-Mailer")
		}
		texts = append(texts, textExpect{"User-Agent", *c.UserAgent, nil}, textExpect{"X-Mailer", *c.UserAgent, nil})
	}
	switch c.Importance {
	case "low":
		m.SetImportance(mail.ImportanceLow)
	case "high":
		m.SetImportance(mail.ImportanceHigh)
	case "urgent":
		m.SetImportance(mail.ImportanceUrgent)
	case "non-urgent":
		m.SetImportance(mail.ImportanceNonUrgent)
	}
	if c.Importance != "" {
		extras.Fields = append(extras.Fields, "Importance", "Priority", "X-Priority", "X-MSMail-Priority")
	}
	if c.Bulk {
		m.SetBulk()
		extras.Fields = append(extras.Fields, "Precedence", "X-Auto-Response-Suppress")
	}
	// addresses
	var from, envFrom, replyTo *c02Box
	var to, cc, mdn []c02Box
	hasTo, hasCc := false, false
	rejected := 0
	for _, a := range c.Addrs {
		box := c02Box{a.Name, a.Addr}
		var err error
		switch a.Setter {
		case "FromFormat":
			if err = m.FromFormat(a.Name, a.Addr); err == nil {
				from = &box
			}
		case "EnvelopeFromFormat":
			if err = m.EnvelopeFromFormat(a.Name, a.Addr); err == nil {
				envFrom = &box
			}
		case "ReplyToFormat":
			if err = m.ReplyToFormat(a.Name, a.Addr); err == nil {
				replyTo = &box
			}
		case "AddToFormat":
			if err = m.AddToFormat(a.Name, a.Addr); err == nil {
				to = append(to, box)
				hasTo = true
			}
		case "AddCcFormat":
			if err = m.AddCcFormat(a.Name, a.Addr); err == nil {
				cc = append(cc, box)
				hasCc = true
			}
		case "AddBccFormat":
			err = m.AddBccFormat(a.Name, a.Addr)
		case "To":
			if err = m.To(quoteName(a.Name) + " <" + a.Addr + ">"); err == nil {
				to = []c02Box{box}
				hasTo = true
			}
		case "ToIgnoreInvalid":
			m.ToIgnoreInvalid(quoteName(a.Name) + " <" + a.Addr + ">")
			hasTo = true
			if len(m.GetTo()) == 1 {
				to = []c02Box{box}
			} else {
				to = nil
				err = fmt.Errorf("ignored")
			}
		case "MDNToFormat":
			if err = m.RequestMDNToFormat(a.Name, a.Addr); err == nil {
				mdn = []c02Box{box}
			}
		case "MDNAddToFormat":
			if err = m.RequestMDNAddToFormat(a.Name, a.Addr); err == nil {
				mdn = append(mdn, box)
			}
		default:
			return []*core.Violation{core.V("HARNESS-setter", "unknown setter %q", a.Setter)}
		}
		if err != nil {
			rejected++
		}
	}
	rec.AddExtra("setter_rejections", rejected)
	type addrExpect struct {
		field string
		boxes []c02Box
	}
	var addrs []addrExpect
	eff := from
	if eff == nil {
		eff = envFrom
	}
	if eff != nil {
		extras.Fields = append(extras.Fields, "From")
		addrs = append(addrs, addrExpect{"From", []c02Box{*eff}})
	}
	if hasTo && len(to) > 0 {
		extras.Fields = append(extras.Fields, "To")
		addrs = append(addrs, addrExpect{"To", to})
	}
	if hasCc && len(cc) > 0 {
		extras.Fields = append(extras.Fields, "Cc")
		addrs = append(addrs, addrExpect{"Cc", cc})
	}
	if replyTo != nil {
		extras.Fields = append(extras.Fields, "Reply-To")
		addrs = append(addrs, addrExpect{"Reply-To", []c02Box{*replyTo}})
	}
	if len(mdn) > 0 {
		extras.Fields = append(extras.Fields, "Disposition-Notification-To")
		addrs = append(addrs, addrExpect{"Disposition-Notification-To", mdn})
	}

	var buf bytes.Buffer
	if _, err := m.WriteTo(&buf); err != nil {
		return []*core.Violation{core.V("render-error", "WriteTo failed: %v", err)}
	}
	root := mimeread.Parse(buf.Bytes())
	var vs []*core.Violation
	// structure is judged for every render (judgeStructure), the free-text values for the first
	judgeStructure := func(root *mimeread.Entity) []*core.Violation {
		var vs []*core.Violation
		root.Walk(func(e *mimeread.Entity) {
			for _, p := range e.Problems {
				if strings.Contains(p, "neither a field") || strings.Contains(p, "continuation line without") || strings.Contains(p, "not terminated by CRLF") {
					vs = append(vs, core.V("stray-header-line", "depth %d: %s", e.Depth, p))
				}
			}
		})
		vs = append(vs, oracle.CompareSections(root, oracle.ExpectedSections(&spec, b.Leaves, extras))...)
		if len(vs) == 0 {
			vs = append(vs, oracle.CompareLeaves(root, b.Leaves, len(spec.Parts), len(spec.Embeds), len(spec.Attachments), oracle.LeafOpts{})...)
		}
		return vs
	}
	// 1. every header section consists of fields and continuations only
	root.Walk(func(e *mimeread.Entity) {
		for _, p := range e.Problems {
			if strings.Contains(p, "neither a field") || strings.Contains(p, "continuation line without") || strings.Contains(p, "not terminated by CRLF") {
				vs = append(vs, core.V("stray-header-line", "depth %d: %s", e.Depth, p))
			}
		}
	})
	// 1b. the strict reader ends lines at CRLF only; every lenient reader (net/mail among them) also
	// ends them at a bare LF, many at a bare CR: a header section that contains one parses to other
	// fields there
	root.Walk(func(e *mimeread.Entity) {
		end := e.BodyStart
		if end > len(e.Raw) || end < 0 {
			end = len(e.Raw)
		}
		hdr := e.Raw[:end]
		for i := 0; i < len(hdr); i++ {
			if (hdr[i] == '\n' && (i == 0 || hdr[i-1] != '\r')) || (hdr[i] == '\r' && (i+1 >= len(hdr) || hdr[i+1] != '\n')) {
				lo := i - 30
				if lo < 0 {
					lo = 0
				}
				hi := i + 30
				if hi > len(hdr) {
					hi = len(hdr)
				}
				vs = append(vs, core.V("bare-cr-lf-in-header-section", "depth %d: a bare %q inside the header section: %q", e.Depth, hdr[i], hdr[lo:hi]))
				break
			}
		}
	})
	// 2. field multisets
	want := oracle.ExpectedSections(&spec, b.Leaves, extras)
	vs = append(vs, oracle.CompareSections(root, want)...)
	// 3. the sections end where they should: leaves carry the supplied content and texts
	if len(vs) == 0 {
		vs = append(vs, oracle.CompareLeaves(root, b.Leaves, len(spec.Parts), len(spec.Embeds), len(spec.Attachments), oracle.LeafOpts{})...)
	}
	// 3b. the same Msg rendered again (a retry, WriteToFile followed by Send): what was set once must not be
	// processed a second time
	if len(vs) == 0 && c.Renders > 1 {
		for k := 2; k <= c.Renders; k++ {
			var again bytes.Buffer
			if _, err := m.WriteTo(&again); err != nil {
				vs = append(vs, core.V("render-error", "render %d failed on a healthy buffer: %v", k, err))
				break
			}
			for _, v := range judgeStructure(mimeread.Parse(again.Bytes())) {
				v.Msg = fmt.Sprintf("render %d of the same message: %s", k, v.Msg)
				vs = append(vs, v)
			}
			if len(vs) > 0 {
				break
			}
		}
		rec.Class("rendered-more-than-once")
	}
	// 4. free-text values
	for _, te := range texts {
		all := root.All(te.field)
		if len(all) != 1 {
			continue // reported by the multiset comparison
		}
		dec, _ := mimeread.DecodeWords(all[0])
		if oracle.NormWS(dec) != oracle.NormWS(te.want) {
			key := oracle.TextKey("value-mismatch", all[0], te.want, dec)
			if len(te.values) > 1 && oracle.NormWS(oracle.LookalikeExpect(te.values)) == oracle.NormWS(dec) {
				key = "ew-lookalike-verbatim"
			}
			vs = append(vs, core.V(key, "field %s: %q decodes to %q, but %q was set", te.field, clipS(all[0]), clipS(dec), clipS(te.want)))
		}
	}
	// 5. address fields
	for _, ae := range addrs {
		all := root.All(ae.field)
		if len(all) != 1 {
			continue
		}
		boxes, err := mimeread.ParseAddressList(all[0])
		if err != nil {
			vs = append(vs, core.V("address-unparseable", "field %s: %q: %v", ae.field, clipS(all[0]), err))
			continue
		}
		if len(boxes) != len(ae.boxes) {
			vs = append(vs, core.V("address-count", "field %s: %q has %d mailboxes, expected %d", ae.field, clipS(all[0]), len(boxes), len(ae.boxes)))
			continue
		}
		for i := range boxes {
			if boxes[i].Addr != ae.boxes[i].addr {
				vs = append(vs, core.V("address-mismatch", "field %s mailbox %d: addr-spec %q, expected %q (field %q)", ae.field, i, boxes[i].Addr, ae.boxes[i].addr, clipS(all[0])))
			}
			if oracle.NormWS(boxes[i].Name) != oracle.NormWS(ae.boxes[i].name) {
				vs = append(vs, core.V("display-name-mismatch", "field %s mailbox %d: display name %q, but %q was set (field %q)", ae.field, i, clipS(boxes[i].Name), clipS(ae.boxes[i].name), clipS(all[0])))
			}
		}
	}
	// evidence
	nt := false
	classes := map[string]bool{}
	for _, s := range c02Texts(&c) {
		if s == "" {
			continue
		}
		if gen.HostileNonTrivial(s) {
			nt = true
		}
		for _, cl := range gen.HostileClasses(s) {
			classes[cl] = true
			rec.Class("text:" + cl)
		}
	}
	var setters []string
	for _, a := range c.Addrs {
		setters = append(setters, a.Setter)
		rec.Class("setter:" + a.Setter)
	}
	if nt {
		var cls []string
		for k := range classes {
			cls = append(cls, k)
		}
		fp := core.Join(spec.Encoding, len(spec.Parts), len(spec.Embeds), len(spec.Attachments), strings.Join(setters, ","), fmt.Sprint(classes), spec.Subject != nil, len(spec.Headers), c.MessageID != nil, c.Organization != nil, c.UserAgent != nil)
		rec.NonTrivial(fp)
		rec.Sample(strings.Join(setters, ","), map[string]interface{}{"encoding": spec.Encoding, "setters": setters, "texts": clipAll(c02Texts(&c)), "rejected": rejected})
	}
	return vs
}

func clipS(s string) string {
	if len(s) > 160 {
		return s[:160] + "..."
	}
	return s
}

func clipAll(ss []string) []string {
	var out []string
	for _, s := range ss {
		if s != "" {
			out = append(out, fmt.Sprintf("%q", clipS(s)))
		}
	}
	if len(out) > 6 {
		out = out[:6]
	}
	return out
}

var c02GenNames = []string{"X-Custom-A", "X-Custom-B", "In-Reply-To", "References", "List-Unsubscribe", "Content-Language", "Comments", "Keywords"}
var c02Setters = []string{"FromFormat", "EnvelopeFromFormat", "ReplyToFormat", "AddToFormat", "AddCcFormat", "AddBccFormat", "To", "ToIgnoreInvalid", "MDNToFormat", "MDNAddToFormat"}

func c02Gen(t *rapid.T) c02Case {
	o := gen.GenOpts{
		Encodings: []string{"quoted-printable", "base64"}, MaxParts: 2, MaxEmbeds: 1, MaxAttach: 2, AllowNoBody: true,
		TextOnlyQP: true, Sources: []string{"reader", "readseeker", "file", "iofs"}, Vias: []string{"string"},
	}
	spec := gen.Program(t, o)
	spec.From, spec.To, spec.Subject = "", nil, nil
	spec.NoUA = rapid.Bool().Draw(t, "noua")
	c := c02Case{Spec: *spec}
	mk := 0
	marker := func() string { mk++; return fmt.Sprintf("MK%d", mk) }
	hostile := func(label string) string { return gen.Hostile(t, label, marker()) }
	// which text-accepting setters are exercised: draw a subset, at least one
	pick := func(label string) bool { return rapid.IntRange(0, 2).Draw(t, "use-"+label) == 0 }
	if pick("subject") {
		s := hostile("subject")
		c.Spec.Subject = &s
	}
	if pick("genheader") {
		n := rapid.IntRange(1, 2).Draw(t, "ngen")
		names := rapid.Permutation(c02GenNames).Draw(t, "gennames")
		for i := 0; i < n; i++ {
			nv := rapid.IntRange(1, 3).Draw(t, "nvalues")
			var vals []string
			for j := 0; j < nv; j++ {
				vals = append(vals, hostile("genvalue"))
			}
			c.Spec.Headers = append(c.Spec.Headers, gen.HeaderSpec{Name: names[i], Values: vals, OldName: rapid.IntRange(0, 3).Draw(t, "oldname") == 0})
		}
	}
	if pick("msgid") {
		s := hostile("msgid")
		c.MessageID = &s
	}
	if pick("org") {
		s := hostile("org")
		c.Organization = &s
	}
	if pick("ua") {
		s := hostile("ua")
		c.UserAgent = &s
	}
	nAddr := rapid.IntRange(0, 4).Draw(t, "naddr")
	for i := 0; i < nAddr; i++ {
		c.Addrs = append(c.Addrs, c02Addr{Setter: rapid.SampledFrom(c02Setters).Draw(t, "setter"), Name: hostile("dispname"), Addr: fmt.Sprintf("u%d@verif.example", i)})
	}
	for i := range c.Spec.Parts {
		if pick("partdesc") {
			c.Spec.Parts[i].Desc = hostile("partdesc")
			c.Spec.Parts[i].DescBySetter = rapid.Bool().Draw(t, "partdescsetter")
		}
	}
	files := func(fs []gen.FileSpec) {
		for i := range fs {
			if pick("filename") {
				fs[i].Name = hostile("filename")
			}
			if pick("filedesc") {
				fs[i].Desc = hostile("filedesc")
			}
			fs[i].CID = ""
			if pick("filecid") {
				fs[i].CID = hostile("filecid")
			}
		}
	}
	files(c.Spec.Embeds)
	files(c.Spec.Attachments)
	c.Importance = rapid.SampledFrom([]string{"", "", "low", "high", "urgent", "non-urgent"}).Draw(t, "importance")
	c.Renders = rapid.SampledFrom([]int{1, 1, 1, 2, 3}).Draw(t, "renders")
	c.Bulk = rapid.IntRange(0, 4).Draw(t, "bulk") == 0
	return c
}

func c02Describe() {
	rec := core.Rec("C02")
	rec.Rule = "rapid draws a message shape (QP or base64 message encoding, i.e. Q or B word encoder; 0..2 parts, 0..1 embeds, 0..2 attachments) and feeds hostile strings (each with a unique marker; fragments: CR/LF/CRLF + 'X-Inj-<marker>: 1', CRLF CRLF + body, NUL/C0/DEL, invalid UTF-8, RFC 5322 specials, encoded-word lookalikes, words of 60..300 bytes, many words, blanks, non-ASCII text, arbitrary bytes, header/boundary lookalikes) " +
		"to a drawn subset of: Subject, SetGenHeader (1..3 values, standard and X- names), SetMessageIDWithValue, SetOrganization, SetUserAgent, display names via FromFormat/EnvelopeFromFormat/ReplyToFormat/AddToFormat/AddCcFormat/AddBccFormat/To/ToIgnoreInvalid/RequestMDNToFormat/RequestMDNAddToFormat, file names, file descriptions, file content-ids, part descriptions (as an option at creation, or through Part.SetDescription on the part handed out by GetParts). " +
		"Oracle: strict scan of every header section of WriteTo's output: only field and continuation lines, and no bare CR or LF anywhere in a header section (a strict reader ends lines at CRLF only, net/mail and most agents also at a bare LF, so such a byte makes the section parse to other fields there); field-name multiset == fields set + documented defaults; leaves carry exactly the supplied content (so no section ended early); every free-text value RFC 2047-decodes (whitespace-normalised) to the string set; address fields parse (own RFC 5322 parser) to the names and mailboxes set; or the setter returned an error. " +
		"TestC02Enum additionally feeds every string of a fixed list of ~70 single hostile strings (each CR/LF injection form, each control/special/non-ASCII constant, lookalikes, 300-byte words) to every one of 22 setters x both encoders x 4 shapes, completely. Non-trivial: some string has a byte outside printable ASCII, an RFC 5322 special, or > 60 bytes. Distinct by (encoder, shape, setter sequence, class set, which setters were used)."
	rec.Assumptions = []string{"*Preformatted setters and header names are excluded (raw by contract)", "IgnoreInvalid setters may drop an entry silently; then the field must be absent"}
}

func TestC02(t *testing.T) {
	c02Describe()
	core.Prop[c02Case]{ID: "C02", Test: "TestC02", Gen: c02Gen, Run: c02Run}.Check(t)
}

// TestC02Enum feeds every single hostile string of the fixed list to every text-accepting setter,
// for both word encoders and four message shapes (finite space, covered completely).
func TestC02Enum(t *testing.T) {
	if core.ReplayArg != "" {
		t.Skip()
	}
	c02Describe()
	p := core.Prop[c02Case]{ID: "C02", Test: "TestC02", Run: c02Run}
	plain := func(n int) []gen.PartSpec {
		var out []gen.PartSpec
		for i := 0; i < n; i++ {
			ct := "text/plain"
			if i == 1 {
				ct = "text/html"
			}
			out = append(out, gen.PartSpec{CType: ct, Content: []byte("body text\r\n"), Via: "string"})
		}
		return out
	}
	file := func(name string) gen.FileSpec {
		return gen.FileSpec{Name: name, Content: []byte("file content"), Source: "reader"}
	}
	type shape struct {
		parts, embeds, attach int
	}
	shapes := []shape{{1, 0, 0}, {2, 0, 1}, {1, 1, 1}, {0, 0, 1}}
	setters := []string{"subject", "genheader", "genheader3", "msgid", "org", "ua", "partdesc", "partdesc-setter", "filename", "filedesc", "filecid", "embedname", "embedcid"}
	setters = append(setters, c02Setters...)
	idx := 0
	for _, enc := range []string{"quoted-printable", "base64"} {
		for _, sh := range shapes {
			for _, setter := range setters {
				for k, hs := range gen.HostileSingles("MK7") {
					idx++
					if idx%core.Shards != core.Shard {
						continue
					}
					spec := gen.MsgSpec{Encoding: enc, FixedDate: true, Parts: plain(sh.parts)}
					for i := 0; i < sh.embeds; i++ {
						spec.Embeds = append(spec.Embeds, file("embed.png"))
					}
					for i := 0; i < sh.attach; i++ {
						spec.Attachments = append(spec.Attachments, file("attach.bin"))
					}
					c := c02Case{Spec: spec}
					s := hs
					switch setter {
					case "subject":
						c.Spec.Subject = &s
					case "genheader":
						c.Spec.Headers = []gen.HeaderSpec{{Name: "X-Custom-A", Values: []string{s}}}
					case "genheader3":
						c.Spec.Headers = []gen.HeaderSpec{{Name: "Keywords", Values: []string{"first", s, "last"}}}
					case "msgid":
						c.MessageID = &s
					case "org":
						c.Organization = &s
					case "ua":
						c.UserAgent = &s
					case "partdesc", "partdesc-setter":
						if len(c.Spec.Parts) == 0 {
							continue
						}
						c.Spec.Parts[len(c.Spec.Parts)-1].Desc = s
						c.Spec.Parts[len(c.Spec.Parts)-1].DescBySetter = setter == "partdesc-setter"
					case "filename", "filedesc", "filecid":
						if len(c.Spec.Attachments) == 0 {
							continue
						}
						switch setter {
						case "filename":
							c.Spec.Attachments[0].Name = s
						case "filedesc":
							c.Spec.Attachments[0].Desc = s
						default:
							c.Spec.Attachments[0].CID = s
						}
					case "embedname", "embedcid":
						if len(c.Spec.Embeds) == 0 {
							continue
						}
						if setter == "embedname" {
							c.Spec.Embeds[0].Name = s
						} else {
							c.Spec.Embeds[0].CID = s
						}
					default:
						c.Addrs = []c02Addr{{Setter: setter, Name: s, Addr: fmt.Sprintf("u%d@verif.example", k)}}
					}
					core.Rec("C02").AddExtra("enumerated_setter_string_cases", 1)
					if v := p.RunOne(c); v != nil {
						t.Fatalf("VIOLATION-DETAIL property=C02 %s", v)
					}
				}
			}
		}
	}
}
