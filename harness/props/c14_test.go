package props

import (
	"context"
	"crypto/tls"
	"fmt"
	maillog "github.com/wneessen/go-mail/log"
	"io"
	"strings"
	"testing"
	"time"

	mail "github.com/wneessen/go-mail"
	"github.com/wneessen/go-mail/smtp"
	"pgregory.net/rapid"

	"verif/harness/core"
	"verif/harness/refsasl"
	"verif/harness/refsmtp"
)

// C14 — SASL mechanisms interoperate with conforming servers.

type c14Case struct {
	Mech        string `json:"mech"` // go-mail SMTPAuthType
	TLS         string `json:"tls"`  // none | 1.2 | 1.3
	User        string `json:"user"` // the account on the server
	Pass        string `json:"pass"`
	ClientUser  string `json:"client_user"` // what the client presents
	ClientPass  string `json:"client_pass"`
	Salt        []byte `json:"salt,omitempty"`
	Iter        int    `json:"iter,omitempty"`
	NonceSuffix string `json:"nonce_suffix,omitempty"`
	Ext         string `json:"ext,omitempty"`
	Challenge   string `json:"challenge,omitempty"`
	Retry       bool   `json:"retry,omitempty"` // second dial with the same smtp.Auth object
	// Salt2: when non-empty, the second attempt of a retry is served with this salt (same iteration
	// count): e.g. the same account on a backup relay, or a re-salted account.
	Salt2 []byte `json:"salt2,omitempty"`
	// PrevPass: before the judged attempt, the same user completes a genuine exchange with this OTHER
	// password against the same salt and iteration count (a password that was rotated since).
	PrevPass string `json:"prev_pass,omitempty"`
	// SetBetween: the Client is created with STALE credentials (what the account had before), dials once
	// (and is turned away), is then given the current ones through SetUsername/SetPassword and dials
	// again: the second connection is judged with the current credentials and its own channel binding.
	SetBetween bool `json:"set_between,omitempty"`
	// SessionCache: the caller's tls.Config has a ClientSessionCache: the second connection of the Client
	// (Retry, SetBetween) resumes the TLS session of the first and has a channel binding of its own.
	SessionCache bool `json:"session_cache,omitempty"`
	// Debug: the Client runs with debug logging on (into a logger that discards): what is logged must
	// not change what is sent.
	Debug bool `json:"debug,omitempty"`
}

// c14NormPair reports whether (raw, normalised) is one of the hand-verified normalisation pairs.
func c14NormPair(raw, norm string) bool {
	for _, p := range [][2]string{{"u\u0308ber", "\u00fcber"}, {"caf\u0065\u0301", "caf\u00e9"}, {"A\u030angstrom", "\u00c5ngstrom"}, {"pass\u00a0word", "pass word"}, {"pass\u3000word", "pass word"}, {"\u2126hm", "\u03a9hm"}, {"n\u0303", "\u00f1"}} {
		if p[0] == raw && p[1] == norm {
			return true
		}
	}
	return false
}

func precisForbidden(s string) bool {
	if s == "" {
		return true
	}
	for _, r := range s {
		if r < 0x20 || r == 0x7f {
			return true
		}
	}
	return false
}

func c14Run(c c14Case) []*core.Violation {
	rec := core.Rec("C14")
	acc := refsasl.Account{User: c.User, Pass: c.Pass}
	res := &refsasl.Result{}
	wire := strings.TrimSuffix(c.Mech, "-NOENC")
	var handler refsmtp.AuthHandler
	sp := refsasl.ScramParams{Salt: c.Salt, Iter: c.Iter, NonceSuffix: c.NonceSuffix, Ext: c.Ext}
	switch {
	case wire == "PLAIN":
		handler = refsasl.Plain(acc, res)
	case wire == "LOGIN":
		handler = refsasl.Login(acc, res)
	case wire == "CRAM-MD5":
		handler = refsasl.CramMD5(acc, c.Challenge, res)
	case wire == "XOAUTH2":
		handler = refsasl.XOAuth2(acc, res)
	case strings.HasPrefix(wire, "SCRAM-SHA-"):
		sp.Hash, sp.Plus = "SHA-256", strings.HasSuffix(wire, "-PLUS")
		if strings.HasPrefix(wire, "SCRAM-SHA-1") {
			sp.Hash = "SHA-1"
		}
		h1 := refsasl.Scram(acc, sp, res)
		sp2 := sp
		if len(c.Salt2) > 0 {
			sp2.Salt = c.Salt2
		}
		h2 := refsasl.Scram(acc, sp2, res)
		exchanges := 0
		handler = func(mech string, initial []byte, io *refsmtp.AuthIO, st *tls.ConnectionState) string {
			exchanges++
			if exchanges >= 2 {
				return h2(mech, initial, io, st)
			}
			return h1(mech, initial, io, st)
		}
	default:
		return []*core.Violation{core.V("HARNESS-mech", "unknown mechanism %q", c.Mech)}
	}
	caps := []string{"8BITMIME", "AUTH " + wire}
	cfg := smtpCfg{TLS: "none"}
	var maxv uint16
	if c.TLS != "none" {
		caps = append([]string{"STARTTLS"}, caps...)
		cfg.TLS = "mandatory"
		cfg.SessionCache = c.SessionCache
		maxv = tls.VersionTLS12
		if c.TLS == "1.3" {
			maxv = tls.VersionTLS13
		}
	}
	srv := refsmtp.NewServer(refsmtp.Script{Caps: caps, NoGreetProbe: true})
	srv.Auth = refsasl.Mux(map[string]refsmtp.AuthHandler{wire: handler})
	srv.TLS = serverTLS(maxv)
	d := &refsmtp.Dialer{Srv: srv}
	opts := cfg.options(d)
	var custom smtp.Auth
	if c.Retry && !strings.HasSuffix(wire, "PLUS") && (c.TLS != "none" || (wire != "PLAIN" && wire != "LOGIN") || strings.HasSuffix(c.Mech, "-NOENC")) {
		// the same smtp.Auth value is used for every dial (WithSMTPAuthCustom)
		switch {
		case wire == "PLAIN":
			custom = smtp.PlainAuth("", c.ClientUser, c.ClientPass, refHost, true)
		case wire == "LOGIN":
			custom = smtp.LoginAuth(c.ClientUser, c.ClientPass, refHost, true)
		case wire == "CRAM-MD5":
			custom = smtp.CRAMMD5Auth(c.ClientUser, c.ClientPass)
		case wire == "XOAUTH2":
			custom = smtp.XOAuth2Auth(c.ClientUser, c.ClientPass)
		case strings.Contains(wire, "256"):
			custom = smtp.ScramSHA256Auth(c.ClientUser, c.ClientPass)
		default:
			custom = smtp.ScramSHA1Auth(c.ClientUser, c.ClientPass)
		}
		opts = append(opts, mail.WithSMTPAuthCustom(custom))
	} else if c.SetBetween {
		opts = append(opts, mail.WithSMTPAuth(mail.SMTPAuthType(c.Mech)), mail.WithUsername(c.ClientUser+"-stale"), mail.WithPassword(c.ClientPass+"-stale"))
	} else {
		opts = append(opts, mail.WithSMTPAuth(mail.SMTPAuthType(c.Mech)), mail.WithUsername(c.ClientUser), mail.WithPassword(c.ClientPass))
	}
	setBetween := c.SetBetween && custom == nil
	if c.Debug {
		opts = append(opts, mail.WithLogger(maillog.New(io.Discard, maillog.LevelDebug)), mail.WithDebugLog())
	}
	cl, err := mail.NewClient(refHost, opts...)
	if err != nil {
		return []*core.Violation{core.V("HARNESS-newclient", "%v", err)}
	}
	if c.PrevPass != "" && strings.HasPrefix(wire, "SCRAM") && !sp.Plus {
		// the rotated-password history: same user, salt and iteration count, other password
		pres := &refsasl.Result{}
		psp := sp
		psp.Hash = "SHA-256"
		if strings.HasPrefix(wire, "SCRAM-SHA-1") {
			psp.Hash = "SHA-1"
		}
		psrv := refsmtp.NewServer(refsmtp.Script{Caps: caps, NoGreetProbe: true})
		psrv.Auth = refsasl.Mux(map[string]refsmtp.AuthHandler{wire: refsasl.Scram(refsasl.Account{User: c.User, Pass: c.PrevPass}, psp, pres)})
		psrv.TLS = serverTLS(maxv)
		pd := &refsmtp.Dialer{Srv: psrv}
		pcfg := cfg
		popts := append(pcfg.options(pd), mail.WithSMTPAuth(mail.SMTPAuthType(c.Mech)), mail.WithUsername(c.User), mail.WithPassword(c.PrevPass))
		if pcl, perr := mail.NewClient(refHost, popts...); perr == nil {
			pr := watchdog(20*time.Second, pd, func() error {
				if e := pcl.DialWithContext(context.Background()); e != nil {
					return e
				}
				return pcl.Close()
			})
			pd.Shutdown()
			if pr.Err != nil || !pres.Accepted {
				if !precisForbidden(c.PrevPass) && !precisForbidden(c.User) {
					return []*core.Violation{core.V("right-credentials-rejected", "preparatory exchange with the previous password %q failed: %v (verifier: %s)", c.PrevPass, pr.Err, pres.Reason)}
				}
			}
		}
	}
	attempts := 1
	if c.Retry || setBetween {
		attempts = 2
	}
	rightNow := c.User == c.ClientUser && (c.Pass == c.ClientPass || c14NormPair(c.ClientPass, c.Pass))
	var vs []*core.Violation
	localRefusals := 0
	for a := 0; a < attempts; a++ {
		right := rightNow
		if setBetween {
			if a == 0 {
				right = false // "<user>-stale" is never the account
			} else {
				cl.SetUsername(c.ClientUser)
				cl.SetPassword(c.ClientPass)
			}
		}
		var dialErr error
		r := watchdog(20*time.Second, d, func() error {
			dialErr = cl.DialWithContext(context.Background())
			if dialErr == nil {
				_ = cl.Close()
			}
			return nil
		})
		if r.Panic != nil {
			return []*core.Violation{core.V("panic", "client panicked: %v", r.Panic)}
		}
		if r.TimedOut {
			rec.AddExtra("inconclusive_watchdog", 1)
			d.Shutdown()
			return nil
		}
		d.Wait(2 * time.Second)
		sess := d.Sessions[len(d.Sessions)-1]
		if sess.TLSState != nil && sess.TLSState.DidResume {
			rec.AddExtra("authentications_over_a_resumed_tls_session", 1)
		}
		tr := sess.Transcript(25)
		for _, v := range sess.Violations {
			if v.Key == "auth-cancel-after-final-reply" {
				continue
			}
			vs = append(vs, core.V("protocol-"+v.Key, "%s\n%s", v.Msg, tr))
		}
		sentAuth := len(sess.AuthCmds) > 0
		switch {
		case !sentAuth:
			// refused locally before anything was sent
			if dialErr == nil {
				vs = append(vs, core.V("no-auth-but-success", "dial succeeded without an AUTH command\n%s", tr))
			} else if strings.HasPrefix(wire, "SCRAM") {
				localRefusals++
			} else {
				vs = append(vs, core.V("local-refusal", "%s refused locally: %v", c.Mech, dialErr))
			}
		case res.Malformed:
			// a SCRAM client may abort after having sent client-first (password normalisation fails
			// only after server-first arrived); everything else that is malformed is a violation
			if strings.HasPrefix(wire, "SCRAM") && precisForbidden(c.ClientPass) && strings.Contains(res.Reason, "abort") {
				localRefusals++
			} else {
				vs = append(vs, core.V("malformed-message", "the %s verifier found the client's message malformed: %s\n%s", wire, res.Reason, tr))
			}
		case right && (dialErr != nil || !res.Accepted):
			if strings.HasPrefix(wire, "SCRAM") && (precisForbidden(c.ClientUser) || precisForbidden(c.ClientPass)) {
				localRefusals++
			} else {
				vs = append(vs, core.V("right-credentials-rejected", "%s with the right credentials (user %q, password %q): verifier accepted=%v (%s), dial error: %v\n%s", c.Mech, c.User, c.Pass, res.Accepted, res.Reason, dialErr, tr))
			}
		case !right && (dialErr == nil || res.Accepted):
			vs = append(vs, core.V("wrong-credentials-accepted", "%s with wrong credentials (account %q/%q, client %q/%q): verifier accepted=%v, dial error: %v\n%s", c.Mech, c.User, c.Pass, c.ClientUser, c.ClientPass, res.Accepted, dialErr, tr))
		}
	}
	d.Shutdown()
	// nonce freshness
	seen := map[string]bool{}
	for _, n := range res.Nonces {
		if seen[n] {
			vs = append(vs, core.V("nonce-reused", "client nonce %q was used in two SCRAM attempts", n))
		}
		seen[n] = true
		if len(n) < 18 {
			vs = append(vs, core.V("nonce-short", "client nonce %q has only %d characters", n, len(n)))
		}
	}
	if strings.HasSuffix(wire, "PLUS") && len(res.Nonces) > 0 {
		want := "tls-unique"
		if c.TLS == "1.3" {
			want = "tls-exporter"
		}
		if res.CBType != want {
			vs = append(vs, core.V("wrong-channel-binding-type", "channel binding %q on a TLS %s connection, expected %q", res.CBType, c.TLS, want))
		}
	}
	// evidence
	rec.AddExtra("local_refusals_precis", localRefusals)
	rec.Class("mech:" + wire)
	right := rightNow
	rec.Class(fmt.Sprintf("right:%v", right))
	if setBetween {
		rec.Class("credentials-set-between-two-dials")
	}
	nonAlnum := func(s string) bool {
		for _, r := range s {
			if !(r >= 'a' && r <= 'z' || r >= 'A' && r <= 'Z' || r >= '0' && r <= '9') {
				return true
			}
		}
		return false
	}
	if localRefusals == 0 && (nonAlnum(c.ClientUser) || nonAlnum(c.ClientPass) || c.Iter > 1 || strings.HasSuffix(wire, "PLUS")) {
		rec.NonTrivial(core.Join(c.Mech, c.TLS, core.Hash(c.User+"\x00"+c.Pass+"\x00"+c.ClientUser+"\x00"+c.ClientPass), len(c.Salt), c.Iter, c.NonceSuffix, c.Ext, c.Challenge, c.Retry))
		rec.Sample(c.Mech+fmt.Sprint(right), map[string]interface{}{"mech": c.Mech, "tls": c.TLS, "user": c.ClientUser, "pass": c.ClientPass, "right": right, "iter": c.Iter, "salt_len": len(c.Salt), "retry": c.Retry})
	}
	return vs
}

var c14CredParts = []string{"user", "pass", "a", "x", "secret", ",", "=", " ", "=2C", "=3D", ",,", "==", "é", "ü", "日本", "Ω", "ß", "@example.com", "\\", "\"", "n=", "r=", "p=", "\t", "\x01", "\x7f", "%", "$", "long-", "0123456789"}

func c14Cred(t *rapid.T, label string) string {
	if rapid.IntRange(0, 29).Draw(t, label+"-empty") == 0 {
		return ""
	}
	n := rapid.IntRange(1, 5).Draw(t, label+"-n")
	var sb strings.Builder
	for i := 0; i < n; i++ {
		sb.WriteString(rapid.SampledFrom(c14CredParts).Draw(t, label+"-part"))
	}
	return sb.String()
}

func c14Gen(t *rapid.T) c14Case {
	c := c14Case{}
	c.Mech = rapid.SampledFrom([]string{"PLAIN-NOENC", "LOGIN-NOENC", "PLAIN", "LOGIN", "CRAM-MD5", "XOAUTH2", "SCRAM-SHA-1", "SCRAM-SHA-256", "SCRAM-SHA-1", "SCRAM-SHA-256", "SCRAM-SHA-1-PLUS", "SCRAM-SHA-256-PLUS"}).Draw(t, "mech")
	switch {
	case strings.HasSuffix(c.Mech, "PLUS") || c.Mech == "PLAIN" || c.Mech == "LOGIN":
		c.TLS = rapid.SampledFrom([]string{"1.2", "1.3"}).Draw(t, "tls")
	default:
		c.TLS = rapid.SampledFrom([]string{"none", "none", "none", "1.2", "1.3"}).Draw(t, "tls")
	}
	c.User = c14Cred(t, "user")
	c.Pass = c14Cred(t, "pass")
	// a real account has a name and a password; empty strings only occur on the client side
	if c.User == "" {
		c.User = "user"
	}
	if c.Pass == "" {
		c.Pass = "pass"
	}
	c.ClientUser, c.ClientPass = c.User, c.Pass
	switch rapid.IntRange(0, 5).Draw(t, "wrong") {
	case 0:
		c.ClientPass = c14Cred(t, "wrongpass")
	case 1:
		c.ClientUser = c14Cred(t, "wronguser")
	case 2: // near misses
		c.ClientPass = c.Pass + rapid.SampledFrom([]string{" ", "x", ",", "="}).Draw(t, "suffix")
	}
	if strings.HasPrefix(c.Mech, "SCRAM") && rapid.IntRange(0, 5).Draw(t, "normpair") == 0 {
		// hand-verified Unicode facts (NFC composition, non-ASCII space -> ASCII space under the
		// OpaqueString profile): the account holds the normalised password, the caller types the raw one
		pair := rapid.SampledFrom([][2]string{{"u\u0308ber", "\u00fcber"}, {"caf\u0065\u0301", "caf\u00e9"}, {"A\u030angstrom", "\u00c5ngstrom"}, {"pass\u00a0word", "pass word"}, {"pass\u3000word", "pass word"}, {"\u2126hm", "\u03a9hm"}, {"n\u0303", "\u00f1"}}).Draw(t, "pair")
		c.ClientUser, c.User = "normuser", "normuser"
		c.ClientPass, c.Pass = pair[0], pair[1]
	}
	if c.Mech == "XOAUTH2" {
		// ^A is XOAUTH2's field separator, as NUL is PLAIN's: a token or user name containing it cannot
		// be represented in the mechanism at all (outside the property's domain, like NUL)
		for _, p := range []*string{&c.User, &c.Pass, &c.ClientUser, &c.ClientPass} {
			*p = strings.ReplaceAll(*p, "\x01", "^A")
		}
	}
	c.Salt = rapid.SliceOfN(rapid.Byte(), 1, 64).Draw(t, "salt")
	c.Iter = rapid.SampledFrom([]int{1, 1, 2, 3, 16, 100, 4096, 4096, 10000, 20000}).Draw(t, "iter")
	if c.Iter >= 4096 && rapid.IntRange(0, 2).Draw(t, "cheap") != 0 {
		c.Iter = rapid.IntRange(1, 64).Draw(t, "iter-small")
	}
	c.NonceSuffix = rapid.StringMatching(`[A-Za-z0-9+/%$()!]{1,24}`).Draw(t, "noncesuffix")
	c.Ext = rapid.SampledFrom([]string{"", "", ",x=ext", ",foo=bar,baz=qux"}).Draw(t, "ext")
	c.Challenge = "<" + rapid.StringMatching(`[0-9]{1,10}\.[0-9]{1,12}`).Draw(t, "chal") + "@" + rapid.SampledFrom([]string{"ref.verif.example", "postoffice.example.net", "h"}).Draw(t, "chalhost") + ">"
	c.Retry = rapid.IntRange(0, 3).Draw(t, "retry") == 0
	if strings.HasPrefix(c.Mech, "SCRAM") && rapid.IntRange(0, 4).Draw(t, "rotated") == 0 {
		c.PrevPass = c.Pass + "-old"
	}
	c.SetBetween = rapid.IntRange(0, 4).Draw(t, "setbetween") == 0
	if c.TLS != "none" {
		c.SessionCache = rapid.Bool().Draw(t, "sessioncache")
		if strings.HasSuffix(c.Mech, "PLUS") && c.SessionCache {
			c.SetBetween = c.SetBetween || rapid.Bool().Draw(t, "setbetweenplus")
		}
	}
	c.Debug = rapid.IntRange(0, 3).Draw(t, "debug") == 0
	if c.Retry && rapid.Bool().Draw(t, "othersalt") {
		c.Salt2 = rapid.SliceOfN(rapid.Byte(), 1, 32).Draw(t, "salt2")
	}
	return c
}

func TestC14(t *testing.T) {
	rec := core.Rec("C14")
	rec.Rule = "the real Client (DialWithContext, STARTTLS over in-memory connections where TLS is needed) authenticates against reference servers written from RFC 4616 (PLAIN), draft-murchison (LOGIN), RFC 2195 (CRAM-MD5), Google's XOAUTH2 format and RFC 5802/7677/9266 (SCRAM-SHA-1/-256 and the PLUS variants with tls-unique on TLS 1.2 and tls-exporter on TLS 1.3 taken from the server's own side of the very connection; own PBKDF2; validated on the RFC 5802/7677/6070 vectors). " +
		"rapid draws account and client credentials from fragments {ASCII, ',' '=' '=2C' '=3D' blanks, quotes, backslash, 'n=' 'r=' 'p=', Unicode letters that are fixed points of SASLprep and PRECIS, TAB/0x01/DEL, empty}, wrong-credential twins (other password, other user, near misses), salts of 1..64 bytes, iteration counts 1..20000, server nonce suffixes, extensions after i=, CRAM challenges, TLS none/1.2/1.3, debug logging on or off, a retry on the same smtp.Auth value for every mechanism (SCRAM optionally against another salt with the same iteration count), a preparatory exchange of the same user with a since-rotated password against the same salt, a Client created with stale credentials that dials, is turned away, is given the current credentials through SetUsername/SetPassword and dials again (incl. the PLUS variants, whose second connection has its own channel binding), and hand-verified normalisation pairs (NFC composition, non-ASCII space) where the account holds the normalised password. " +
		"Oracle: verifier accepts <=> credentials are the account's; right credentials => dial succeeds; wrong => error; no message the verifier finds malformed; SCRAM client nonces pairwise distinct and >= 18 characters; PLUS uses the binding type that fits the TLS version. A local refusal of PRECIS-forbidden strings (control characters, empty) by SCRAM is a permitted third outcome, counted separately and never non-trivial. " +
		"Non-trivial: credentials with a non-alphanumeric character, iterations > 1, or a PLUS mechanism. Distinct by (mechanism, TLS, credentials, salt length, iterations, suffix, extensions, challenge, retry)."
	rec.Assumptions = []string{"Unicode credentials are restricted to fixed points of SASLprep and PRECIS OpaqueString (no independent normaliser is available offline)", "NUL is not generated (outside the property's quantifier), nor is ^A for XOAUTH2 (its field separator)"}
	core.Prop[c14Case]{ID: "C14", Test: "TestC14", Gen: c14Gen, Run: c14Run}.Check(t)
}
