package props

import (
	"testing"

	"verif/harness/core"
	"verif/harness/gen"
)

// FuzzC09 is the native coverage-guided fuzz target for the EML parser (thorough tier only).
// The semantic oracle (no panic, terminates) is inside the target; a failing input is written
// as a C09 replay case like any other violation.
func FuzzC09(f *testing.F) {
	c09Describe()
	for _, d := range repoEMLFixtures() {
		f.Add([]byte(d), byte(0), uint16(0))
	}
	for i, d := range gen.EMLDictionary {
		f.Add([]byte("Content-Type: multipart/mixed; boundary=b\r\n\r\n--b\r\n"+d+"\r\nbody\r\n--b--\r\n"), byte(i), uint16(i))
		f.Add([]byte(d), byte(i), uint16(3*i))
	}
	modes := []string{"whole", "string", "onebyte", "errat", "dataerr", "zeros"}
	p := core.Prop[c09Case]{ID: "C09", Test: "TestC09", Run: c09Run}
	f.Fuzz(func(t *testing.T, data []byte, mode byte, k uint16) {
		if len(data) > 64*1024 {
			return
		}
		c := c09Case{Doc: data, Reader: modes[int(mode)%len(modes)], K: int(k) % (len(data) + 1)}
		if c.Reader == "zeros" {
			c.K = int(k)%50 + 1
		}
		if v := p.RunOne(c); v != nil {
			t.Fatalf("VIOLATION-DETAIL property=C09 %s", v)
		}
	})
}
