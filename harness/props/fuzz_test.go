package props

import (
	"bytes"
	"encoding/binary"
	"strings"
	"testing"

	"pgregory.net/rapid"

	"verif/harness/core"
	"verif/harness/gen"
)

// fuzzRapid turns a property's rapid generator into a native coverage-guided fuzz target: the
// fuzzer mutates the bit stream the generator draws from (rapid.MakeFuzz), so every input is a
// case of the property's own domain, and the property's oracle runs inside the target.
func fuzzRapid[C any](f *testing.F, p core.Prop[C]) {
	// starting corpus: bit streams long enough for a whole case (rapid reads 8 bytes per draw); fixed
	// data (a xorshift sequence per entry), all zeros (every draw minimal) and all ones
	for i := uint64(1); i <= 24; i++ {
		buf := make([]byte, 6144)
		x := i * 0x9E3779B97F4A7C15
		for j := 0; j+8 <= len(buf); j += 8 {
			x ^= x << 13
			x ^= x >> 7
			x ^= x << 17
			binary.LittleEndian.PutUint64(buf[j:], x)
		}
		f.Add(buf)
	}
	f.Add(make([]byte, 6144))
	f.Add(bytes.Repeat([]byte{0xff}, 6144))
	f.Fuzz(rapid.MakeFuzz(func(t *rapid.T) {
		c := p.Gen(t)
		if v := p.RunOne(c); v != nil {
			t.Fatalf("VIOLATION-DETAIL property=%s %s", p.ID, v)
		}
	}))
}

func FuzzC01(f *testing.F) {
	fuzzRapid(f, core.Prop[c01Case]{ID: "C01", Test: "TestC01", Gen: c01Gen, Run: c01Run})
}

func FuzzC02(f *testing.F) {
	fuzzRapid(f, core.Prop[c02Case]{ID: "C02", Test: "TestC02", Gen: c02Gen, Run: c02Run})
}

func FuzzC06(f *testing.F) {
	fuzzRapid(f, core.Prop[c06Case]{ID: "C06", Test: "TestC06", Gen: c06Gen, Run: c06Run})
}

func FuzzC10(f *testing.F) {
	fuzzRapid(f, core.Prop[c10Case]{ID: "C10", Test: "TestC10", Gen: c10Gen, Run: c10Run})
}

func FuzzC11(f *testing.F) {
	fuzzRapid(f, core.Prop[c11Case]{ID: "C11", Test: "TestC11", Gen: c11Gen, Run: c11Run})
}

func FuzzC20(f *testing.F) {
	fuzzRapid(f, core.Prop[c20Case]{ID: "C20", Test: "TestC20", Gen: c20Gen, Run: c20Run})
}

// FuzzC09 is the native coverage-guided fuzz target for the EML parser (thorough tier only).
// The semantic oracle (no panic, terminates) is inside the target; a failing input is written
// as a C09 replay case like any other violation.
func FuzzC09(f *testing.F) {
	c09Describe()
	for _, d := range repoEMLFixtures() {
		f.Add([]byte(d), byte(0), uint16(0))
	}
	for i, d := range gen.EMLDictionary {
		f.Add([]byte("Content-Type: multipart/mixed; boundary=b\r\n\r\n--b\r\n"+d+"\r\nbody\r\n--b--\r\n"), byte(i), uint16(i))
		f.Add([]byte(d), byte(i), uint16(3*i))
	}
	modes := []string{"whole", "string", "onebyte", "errat", "dataerr", "zeros", "file"}
	p := core.Prop[c09Case]{ID: "C09", Test: "TestC09", Run: c09Run}
	f.Fuzz(func(t *testing.T, data []byte, mode byte, k uint16) {
		if len(data) > 64*1024 {
			return
		}
		c := c09Case{Doc: data, Reader: modes[int(mode)%len(modes)], K: int(k) % (len(data) + 1)}
		if c.Reader == "zeros" {
			c.K = int(k)%50 + 1
		}
		if v := p.RunOne(c); v != nil {
			t.Fatalf("VIOLATION-DETAIL property=C09 %s", v)
		}
	})
}

// FuzzC18 fuzzes (content, transfer encoding, two chunk plans) for a body + attachment message;
// the line-discipline lint, the content round trip and the chunking metamorphic relation are the
// oracle (c18Run).
func FuzzC18(f *testing.F) {
	f.Add([]byte("hello world\r\n"), byte(0), []byte{1}, []byte{57})
	f.Add([]byte(strings.Repeat("=", 80)+"\r\n.\r\n"), byte(1), []byte{3, 5}, []byte{76})
	f.Add(bytes.Repeat([]byte{0xff, 0x00, '\r', '\n'}, 40), byte(2), []byte{57, 1}, []byte{2, 3, 5, 7})
	p := core.Prop[c18Case]{ID: "C18", Test: "TestC18", Run: c18Run}
	f.Fuzz(func(t *testing.T, content []byte, enc byte, plan1, plan2 []byte) {
		if len(content) > 4096 || len(plan1) > 8 || len(plan2) > 8 {
			return
		}
		toPlan := func(b []byte) []int {
			var out []int
			for _, x := range b {
				out = append(out, int(x)%120+1)
			}
			return out
		}
		encs := []string{"quoted-printable", "base64", "8bit"}
		e := encs[int(enc)%3]
		body := content
		if e == "quoted-printable" {
			// QP text is in the property's domain with CRLF/LF breaks only
			body = bytes.ReplaceAll(bytes.ReplaceAll(content, []byte("\r\n"), []byte("\n")), []byte("\r"), []byte("?"))
		}
		subj := "fuzz"
		spec := gen.MsgSpec{Encoding: e, FixedDate: true, From: "a@verif.example", To: []string{"b@verif.example"}, Subject: &subj,
			Parts:       []gen.PartSpec{{CType: "text/plain", Content: body, Via: "writer", Prod: gen.Producer{Chunks: toPlan(plan1)}}},
			Attachments: []gen.FileSpec{{Name: "f.bin", Content: content, Source: "writer", Prod: gen.Producer{Chunks: toPlan(plan1)}}}}
		c := c18Case{Spec: spec, AltChunks: toPlan(plan2)}
		if v := p.RunOne(c); v != nil {
			t.Fatalf("VIOLATION-DETAIL property=C18 %s", v)
		}
	})
}
