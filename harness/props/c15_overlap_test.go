package props

import (
	"context"
	"crypto/tls"
	"sync/atomic"
	"testing"
	"time"

	mail "github.com/wneessen/go-mail"

	"verif/harness/core"
	"verif/harness/refsasl"
	"verif/harness/refsmtp"
)

// C15, two exchanges of ONE mail.Client at a time. The Client is configured with a SCRAM mechanism and
// dials twice (DialToSMTPClientWithContext). The peer of connection B knows no password: it never sends a
// server-first message, it waits until the genuine exchange on connection A has produced a server
// signature and presents THAT one, followed by 235. The exchange on B saw no nonce of its own extended
// and no signature over its own messages: the dial on B has to fail and the forged server-final must not
// be acknowledged. Order "overlap": B has sent AUTH before A starts; order "after": B starts when A's
// exchange is complete (A's connection is still open).

type c15OverlapCase struct {
	Mech  string `json:"mech"`  // SCRAM-SHA-1 | SCRAM-SHA-256
	Order string `json:"order"` // overlap | after
}

func c15OverlapRun(c c15OverlapCase) []*core.Violation {
	rec := core.Rec("C15")
	p := refsasl.ScramParams{Salt: []byte("c15-overlap-salt"), Iter: 4, NonceSuffix: "ovlSrvNonce", Hash: "SHA-256"}
	if c.Mech == "SCRAM-SHA-1" {
		p.Hash = "SHA-1"
	}
	const user, pass = "overlapuser", "overlap-pass-0123456789"
	var arrivals int32
	rogueHasAuth := make(chan struct{})
	sigCh := make(chan string, 1)
	var rogueAcked, rogueAborted, genuineOK atomic.Bool
	rogueIsFirst := c.Order == "overlap"
	handler := func(mech string, initial []byte, io *refsmtp.AuthIO, st *tls.ConnectionState) string {
		k := atomic.AddInt32(&arrivals, 1)
		rogue := (k == 1) == rogueIsFirst
		if rogue {
			if rogueIsFirst {
				close(rogueHasAuth)
			}
			var sig string
			select {
			case sig = <-sigCh:
			case <-time.After(10 * time.Second):
				return "535 5.7.8 no signature to replay"
			}
			resp, err := io.Challenge([]byte("v=" + sig))
			if err != nil {
				rogueAborted.Store(true)
				return "501 5.5.2 cancelled"
			}
			if len(resp) == 0 {
				rogueAcked.Store(true)
			}
			return "235 2.7.0 ok"
		}
		if len(initial) == 0 {
			var err error
			if initial, err = io.Challenge(nil); err != nil {
				return "501 5.5.2 cancelled"
			}
		}
		cf, err := refsasl.ParseClientFirst(string(initial))
		if err != nil {
			return "535 5.7.8 malformed client-first"
		}
		sf := refsasl.ServerFirst(p, cf.Nonce)
		resp, err := io.Challenge([]byte(sf))
		if err != nil {
			return "501 5.5.2 cancelled"
		}
		sig, err := refsasl.VerifyFinal(p, pass, cf, sf, string(resp), nil)
		if err != nil {
			return "535 5.7.8 proof does not verify"
		}
		if _, err := io.Challenge([]byte("v=" + sig)); err != nil {
			return "501 5.5.2 cancelled"
		}
		genuineOK.Store(true)
		sigCh <- sig
		return "235 2.7.0 ok"
	}
	srv := refsmtp.NewServer(refsmtp.Script{Caps: []string{"8BITMIME", "AUTH " + c.Mech}, NoGreetProbe: true})
	srv.Auth = handler
	d := &refsmtp.Dialer{Srv: srv}
	cl, err := mail.NewClient(refHost, mail.WithDialContextFunc(d.DialContext), mail.WithTLSPolicy(mail.NoTLS), mail.WithTimeout(15*time.Second),
		mail.WithHELO("client.verif.example"), mail.WithSMTPAuth(mail.SMTPAuthType(c.Mech)), mail.WithUsername(user), mail.WithPassword(pass))
	if err != nil {
		return []*core.Violation{core.V("HARNESS-newclient", "%v", err)}
	}
	type res struct{ err error }
	rogueDone, genuineDone := make(chan res, 1), make(chan res, 1)
	dial := func(out chan res) {
		defer func() {
			if p := recover(); p != nil {
				out <- res{err: context.Canceled}
			}
		}()
		sc, err := cl.DialToSMTPClientWithContext(context.Background())
		if err == nil && sc != nil {
			defer func() { _ = sc.Close() }()
			// keep the connection until the other dial is through
			time.Sleep(50 * time.Millisecond)
		}
		out <- res{err: err}
	}
	var rogueRes, genuineRes res
	timeout := time.After(40 * time.Second)
	if rogueIsFirst {
		go dial(rogueDone)
		select {
		case <-rogueHasAuth:
		case <-timeout:
			d.Shutdown()
			rec.AddExtra("inconclusive_watchdog", 1)
			return nil
		}
		go dial(genuineDone)
	} else {
		go dial(genuineDone)
	}
	select {
	case genuineRes = <-genuineDone:
	case <-timeout:
		d.Shutdown()
		rec.AddExtra("inconclusive_watchdog", 1)
		return nil
	}
	if !rogueIsFirst {
		go dial(rogueDone)
	}
	select {
	case rogueRes = <-rogueDone:
	case <-timeout:
		d.Shutdown()
		rec.AddExtra("inconclusive_watchdog", 1)
		return nil
	}
	d.Shutdown()
	rec.AddExtra("overlapping_exchanges_of_one_client", 1)
	rec.NonTrivial(core.Join("overlap", c.Mech, c.Order))
	var vs []*core.Violation
	if genuineRes.err != nil || !genuineOK.Load() {
		// the genuine exchange is C14's subject; without it there is nothing to replay
		rec.AddExtra("overlap_genuine_exchange_failed", 1)
		if genuineRes.err != nil && genuineOK.Load() {
			vs = append(vs, core.V("genuine-exchange-failed", "the exchange with the server that knows the password succeeded on the server side but the dial returned %v (order %s)", genuineRes.err, c.Order))
		}
		return vs
	}
	if rogueAcked.Load() {
		vs = append(vs, core.V("acked-invalid-server-final", "the client acknowledged, on a connection whose peer never sent a server-first message, the server signature of ANOTHER connection's exchange (%s, order %s)", c.Mech, c.Order))
	}
	if rogueRes.err == nil {
		vs = append(vs, core.V("success-without-server-proof", "the dial to a peer that never sent a server-first message and replayed the server signature of another connection's exchange was reported successful (%s, order %s)", c.Mech, c.Order))
	}
	return vs
}

func TestC15Overlap(t *testing.T) {
	c15Describe()
	p := core.Prop[c15OverlapCase]{ID: "C15", Test: "TestC15Overlap", Run: c15OverlapRun}
	if core.ReplayArg != "" {
		p.Check(t)
		return
	}
	i := 0
	for _, mech := range []string{"SCRAM-SHA-1", "SCRAM-SHA-256"} {
		for _, order := range []string{"overlap", "after"} {
			i++
			if i%core.Shards != core.Shard {
				continue
			}
			if v := p.RunOne(c15OverlapCase{Mech: mech, Order: order}); v != nil {
				t.Fatalf("VIOLATION-DETAIL property=C15 %s", v)
			}
		}
	}
}
