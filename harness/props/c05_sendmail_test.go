package props

import (
	"fmt"
	netmail "net/mail"
	"strings"
	"testing"
	"time"

	"github.com/wneessen/go-mail/smtp"
	"pgregory.net/rapid"

	"verif/harness/core"
	"verif/harness/refsmtp"
)

// C05, smtp.SendMail (the net/smtp style one-call API of the smtp package): raw sender and recipient strings.

type c05SendMailCase struct {
	From  string   `json:"from"`
	Rcpts []string `json:"rcpts"`
}

func c05SendMailRun(c c05SendMailCase) []*core.Violation {
	rec := core.Rec("C05")
	srv := refsmtp.NewServer(refsmtp.Script{Caps: []string{"8BITMIME"}, NoGreetProbe: true})
	ln, err := refsmtp.ListenTCP("127.0.0.1", srv, false)
	if err != nil {
		return []*core.Violation{core.V("HARNESS-listen", "%v", err)}
	}
	done := make(chan error, 1)
	go func() {
		defer func() {
			if p := recover(); p != nil {
				done <- fmt.Errorf("PANIC: %v", p)
			}
		}()
		done <- smtp.SendMail(fmt.Sprintf("127.0.0.1:%d", ln.Port()), nil, c.From, c.Rcpts, []byte("Subject: c05 sendmail\r\n\r\nbody\r\n"))
	}()
	var callErr error
	select {
	case callErr = <-done:
	case <-time.After(20 * time.Second):
		ln.Close()
		rec.AddExtra("inconclusive_watchdog", 1)
		return nil
	}
	sessions := ln.Close()
	if callErr != nil && strings.HasPrefix(callErr.Error(), "PANIC") {
		return []*core.Violation{core.V("panic", "%v", callErr)}
	}
	rec.AddExtra("sendmail_function_cases", 1)
	rec.NonTrivial(core.Join("sendmail", core.Hash(fmt.Sprint(c))))
	settable := func(x string) bool {
		a, err := netmail.ParseAddress(x)
		return err == nil && a.Address == x && a.Name == ""
	}
	hostile := func(x string) bool { return strings.ContainsAny(x, "\r\n") }
	anyHostile := hostile(c.From)
	allSettable := settable(c.From)
	for _, r := range c.Rcpts {
		anyHostile = anyHostile || hostile(r)
		allSettable = allSettable && settable(r)
	}
	var vs []*core.Violation
	if len(sessions) == 0 {
		return nil
	}
	s := sessions[0]
	tr := s.Transcript(30)
	if anyHostile && len(s.Txns) > 0 {
		// SendMail validates every address before it connects: nothing of a call with a CR/LF value is sent
		vs = append(vs, core.V("hostile-value-sent", "SendMail with a CR/LF carrying address (from %q, to %q) returned %v, yet a MAIL command reached the server\n%s", c.From, c.Rcpts, callErr, tr))
	}
	for _, v := range s.Violations {
		switch v.Key {
		case "bare-cr", "bare-lf", "unterminated-line", "unknown-command", "nested-mail", "rcpt-without-mail", "data-without-mail", "pipelining":
			vs = append(vs, core.V("malformed-"+v.Key, "%s\n%s", v.Msg, tr))
		case "path-syntax", "param-syntax", "trailing-garbage", "nul-in-line":
			if allSettable {
				vs = append(vs, core.V("malformed-"+v.Key, "%s\n%s", v.Msg, tr))
			}
		}
	}
	order := map[string]int{"EHLO": 0, "HELO": 0, "MAIL": 1, "RCPT": 2, "DATA": 3, "EOD": 4, "QUIT": 5}
	last, counts := 0, map[string]int{}
	for _, st := range s.Steps {
		verb := strings.ToUpper(strings.SplitN(st, "#", 2)[0])
		if verb == "GREET" {
			continue
		}
		pos, known := order[verb]
		counts[verb]++
		if !known || pos < last {
			vs = append(vs, core.V("injected-command", "the server received the command step %q, which SendMail has no reason to send at that point (steps %v)\n%s", st, s.Steps, tr))
			break
		}
		last = pos
	}
	if counts["MAIL"] > 1 || counts["RCPT"] > len(c.Rcpts) || counts["DATA"] > 1 {
		vs = append(vs, core.V("injected-command", "more commands than SendMail has reason to send: steps %v\n%s", s.Steps, tr))
	}
	if callErr == nil && allSettable {
		if len(s.Txns) != 1 || len(s.Txns[0].Rcpts) != len(c.Rcpts) {
			vs = append(vs, core.V("wrong-forward-paths", "SendMail returned nil, the server saw %d transactions\n%s", len(s.Txns), tr))
		} else {
			l, dm, ok := refsmtp.SplitPath(s.Txns[0].From)
			wl, wd, _ := splitLast(c.From)
			if !ok || l != wl || !strings.EqualFold(dm, wd) {
				vs = append(vs, core.V("wrong-reverse-path", "SendMail(from %q): reverse-path <%s>\n%s", c.From, s.Txns[0].From, tr))
			}
			for i, r := range s.Txns[0].Rcpts {
				l, dm, ok := refsmtp.SplitPath(r.Path)
				wl, wd, _ := splitLast(c.Rcpts[i])
				if !ok || l != wl || !strings.EqualFold(dm, wd) {
					vs = append(vs, core.V("wrong-forward-path", "SendMail(to %q): forward-path <%s>\n%s", c.Rcpts[i], r.Path, tr))
				}
			}
		}
	}
	return vs
}

func TestC05SendMail(t *testing.T) {
	c05Describe()
	core.Prop[c05SendMailCase]{ID: "C05", Test: "TestC05SendMail", Run: c05SendMailRun, Gen: func(t *rapid.T) c05SendMailCase {
		c := c05SendMailCase{From: c05DirectValue(t, "from")}
		n := rapid.IntRange(1, 3).Draw(t, "nrcpt")
		for i := 0; i < n; i++ {
			c.Rcpts = append(c.Rcpts, c05DirectValue(t, "rcpt"))
		}
		return c
	}}.Check(t)
}
