package props

import (
	netmail "net/mail"
	"os"
)

func osReadDir(dir string) ([]string, error) {
	es, err := os.ReadDir(dir)
	if err != nil {
		return nil, err
	}
	var out []string
	for _, e := range es {
		out = append(out, e.Name())
	}
	return out, nil
}

func osReadFile(p string) ([]byte, error) { return os.ReadFile(p) }

// mailAddr aliases net/mail.Address for helper signatures.
type mailAddr = netmail.Address
