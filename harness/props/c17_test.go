package props

import (
	"context"
	"fmt"
	"strings"
	"testing"
	"time"

	mail "github.com/wneessen/go-mail"
	"pgregory.net/rapid"

	"verif/harness/core"
	"verif/harness/refsmtp"
)

// C17 — every network operation is bounded by the configured timeout.

type c17Case struct {
	Cfg       smtpCfg  `json:"cfg"` // TimeoutMS is the configured timeout
	Caps      []string `json:"caps"`
	StallStep string   `json:"stall_step"` // step id at which the server goes silent ("content" = stops reading DATA content)
	Call      string   `json:"call"`       // dial | dialandsend | send | reset
	// CtxMS > 0: the dialling calls get a caller context whose own deadline is that far away (much
	// later than the configured timeout, which must still bound the call).
	CtxMS int `json:"ctx_ms,omitempty"`
	// Then: after the timed call has returned, the caller tries again on the same Client ("send" or
	// "reset"); that call is bounded as well (the server is still silent, or the connection is gone).
	Then string `json:"then,omitempty"`
	// Warmup > 0 (call "send", plain connection): the stalled message is preceded by that many messages
	// that go through quickly in the same Send call; the bound for these cases is tight (3 s), because a
	// deadline that creeps forward with every successful operation stays far below the general bound.
	Warmup int `json:"warmup,omitempty"`
}

type c17Outcome struct {
	returned bool
	elapsed  time.Duration
	err      error
	reached  bool // the stall point was actually reached
	setupErr error
	panicked interface{}
	// second act (Then)
	thenDone    bool
	thenBlocked bool
}

func c17Bound(timeoutMS int) time.Duration {
	// 20 x timeout, but at least 15 s: closing a TLS connection whose peer no longer reads may by
	// itself take up to 5 s (crypto/tls gives the close_notify alert that long), which is bounded
	// and therefore not what the property forbids.
	b := time.Duration(timeoutMS) * time.Millisecond * 20
	if b < 15*time.Second {
		b = 15 * time.Second
	}
	return b
}

func c17Exec(c *c17Case) c17Outcome {
	script := refsmtp.Script{Caps: c.Caps, NoGreetProbe: true}
	pipeCap := 0
	if c.StallStep == "content" {
		script.StallData, script.DropInData = true, 40
		pipeCap = 64 // a bounded buffer: once the server stops reading, the writer really blocks
	} else {
		script.Steps = map[string]refsmtp.Outcome{c.StallStep: {Kind: "stall"}}
	}
	srv := refsmtp.NewServer(script)
	srv.Auth = c05Auth
	srv.TLS = serverTLS(0)
	d := &refsmtp.Dialer{Srv: srv, PipeCap: pipeCap}
	if c.Cfg.Fallback {
		d.FailDial = 1 // the primary port refuses the connection; the dialogue runs on the fallback port
	}
	defer d.Shutdown()
	cl, err := mail.NewClient(refHost, c.Cfg.options(d)...)
	if err != nil {
		return c17Outcome{setupErr: err}
	}
	big := strings.Repeat("0123456789abcdef0123456789abcdef0123456789abcdef0123456789abcdef\r\n", 200)
	mk := func() *mail.Msg {
		m := simpleMsg(1, 2, "quoted-printable")
		m.SetBodyString(mail.TypeTextPlain, big)
		return m
	}
	bound := c17Bound(c.Cfg.TimeoutMS)
	if c.Warmup > 0 {
		bound = 3 * time.Second
	}
	var out c17Outcome
	// phase 1 (not timed): get to the state in which the timed call is made
	if c.Call == "send" || c.Call == "reset" || c.Call == "redial" {
		r := watchdog(bound, d, func() error { return cl.DialWithContext(context.Background()) })
		if r.TimedOut || r.Err != nil || r.Panic != nil {
			// the stall point lies in the dial dialogue: covered by the dial cases
			out.setupErr = fmt.Errorf("dial phase did not complete: %v timedout=%v", r.Err, r.TimedOut)
			return out
		}
	}
	ctx := context.Background()
	if c.CtxMS > 0 {
		var cancel context.CancelFunc
		ctx, cancel = context.WithTimeout(ctx, time.Duration(c.CtxMS)*time.Millisecond)
		defer cancel()
	}
	r := watchdog(bound, d, func() error {
		switch c.Call {
		case "dial", "redial":
			// redial: the Client holds an established connection (phase 1) on which the server has gone silent
			return cl.DialWithContext(ctx)
		case "dialandsend":
			return cl.DialAndSendWithContext(ctx, mk())
		case "dialandsend-empty":
			// a connectivity check / a batch that was filtered down to nothing
			return cl.DialAndSendWithContext(ctx)
		case "send":
			if c.Warmup > 0 {
				var batch []*mail.Msg
				for i := 0; i <= c.Warmup; i++ {
					batch = append(batch, simpleMsg(i+1, 1, "quoted-printable"))
				}
				return cl.Send(batch...)
			}
			return cl.Send(mk())
		default:
			return cl.Reset()
		}
	})
	out.returned = !r.TimedOut
	out.elapsed = r.Elapsed
	out.err = r.Err
	out.panicked = r.Panic
	if c.Then != "" && out.returned && out.err != nil && out.panicked == nil {
		// second act: the retry after a call that ran into the timeout
		r2 := watchdog(bound, d, func() error {
			switch c.Then {
			case "reset":
				return cl.Reset()
			case "dialandsend":
				return cl.DialAndSend(mk())
			}
			return cl.Send(mk())
		})
		out.thenDone = true
		if r2.TimedOut {
			out.returned = false
			out.thenBlocked = true
		}
		if r2.Panic != nil {
			out.panicked = r2.Panic
		}
	}
	for _, s := range d.Sessions {
		if s.Stalled {
			out.reached = true
		}
	}
	return out
}

func c17Run(c c17Case) []*core.Violation {
	rec := core.Rec("C17")
	out := c17Exec(&c)
	if out.setupErr != nil {
		rec.Skip()
		return nil
	}
	if out.panicked != nil {
		return []*core.Violation{core.V("panic", "client panicked: %v", out.panicked)}
	}
	if !out.reached {
		// the dialogue never got to that step (e.g. no AUTH configured): nothing to judge
		rec.Class("stall-point-not-reached")
		return nil
	}
	fp := core.Join(c.Call, c.StallStep, c.Cfg.TLS, c.Cfg.Auth, c.Cfg.TimeoutMS, c.Cfg.NoNoop, c.Cfg.Fallback, c.CtxMS, c.Then, c.Warmup)
	if out.thenDone {
		rec.AddExtra("retries_after_a_timed_out_call", 1)
	}
	rec.NonTrivial(fp)
	rec.Class("call:" + c.Call)
	rec.Sample(c.Call+"/"+c.StallStep, map[string]interface{}{"call": c.Call, "stall_step": c.StallStep, "tls": c.Cfg.TLS, "auth": c.Cfg.Auth, "timeout_ms": c.Cfg.TimeoutMS, "returned_after_ms": out.elapsed.Milliseconds(), "error": fmt.Sprint(out.err)})
	bound := c17Bound(c.Cfg.TimeoutMS)
	if c.Warmup > 0 {
		bound = 3 * time.Second
	}
	miss := func(o c17Outcome) string {
		if o.thenBlocked {
			return fmt.Sprintf("%s returned its time-out error, but the following %s on the same Client did not return within %v (configured timeout %d ms; server silent since %s)", c.Call, c.Then, bound, c.Cfg.TimeoutMS, c.StallStep)
		}
		if !o.returned {
			return fmt.Sprintf("%s did not return within %v (configured timeout %d ms) with the server silent at %s", c.Call, bound, c.Cfg.TimeoutMS, c.StallStep)
		}
		if o.err == nil {
			return fmt.Sprintf("%s returned nil after %v although the server went silent at %s", c.Call, o.elapsed, c.StallStep)
		}
		return ""
	}
	if m := miss(out); m != "" {
		// the miss must repeat on two isolated re-runs before it is reported
		for i := 0; i < 2; i++ {
			again := c17Exec(&c)
			if again.setupErr != nil || !again.reached || miss(again) == "" {
				rec.AddExtra("unrepeatable_misses", 1)
				return nil
			}
		}
		key := "blocked"
		if out.returned {
			key = "silent-success"
		}
		return []*core.Violation{core.V(key, "%s", m)}
	}
	if out.elapsed > time.Duration(c.Cfg.TimeoutMS)*time.Millisecond*3+500*time.Millisecond {
		rec.AddExtra("returns_later_than_3x_timeout", 1)
	}
	return nil
}

func c17Configs() []c17Case {
	authCaps := "AUTH PLAIN LOGIN CRAM-MD5 XOAUTH2 SCRAM-SHA-1 SCRAM-SHA-256"
	var out []c17Case
	for _, tlsp := range []string{"none", "mandatory"} {
		for _, auth := range []string{"", "PLAIN-NOENC", "LOGIN-NOENC", "CRAM-MD5", "SCRAM-SHA-256"} {
			caps := []string{"8BITMIME", "DSN", authCaps}
			if tlsp != "none" {
				caps = append([]string{"STARTTLS"}, caps...)
			}
			cfg := smtpCfg{TLS: tlsp, Auth: auth}
			if auth != "" {
				cfg.User, cfg.Pass = "user", "secretpw"
			}
			dialSteps := []string{"greet", "ehlo#1"}
			if tlsp != "none" {
				dialSteps = append(dialSteps, "starttls", "tlshandshake", "ehlo#2")
			}
			if auth != "" {
				dialSteps = append(dialSteps, "auth#1", "authstep#1", "authstep#2")
			}
			for _, st := range dialSteps {
				out = append(out, c17Case{Cfg: cfg, Caps: caps, StallStep: st, Call: "dial"})
				out = append(out, c17Case{Cfg: cfg, Caps: caps, StallStep: st, Call: "dialandsend"})
			}
			if auth == "" || auth == "LOGIN-NOENC" {
				for _, st := range []string{"noop#1", "mail#1", "rcpt#1.1", "rcpt#1.2", "data#1", "content", "eod#1", "noop#2", "rset#1"} {
					out = append(out, c17Case{Cfg: cfg, Caps: caps, StallStep: st, Call: "send"})
					out = append(out, c17Case{Cfg: cfg, Caps: caps, StallStep: st, Call: "dialandsend"})
				}
				out = append(out, c17Case{Cfg: cfg, Caps: caps, StallStep: "quit", Call: "dialandsend"})
				out = append(out, c17Case{Cfg: cfg, Caps: caps, StallStep: "noop#1", Call: "reset"})
				out = append(out, c17Case{Cfg: cfg, Caps: caps, StallStep: "rset#1", Call: "reset"})
			}
		}
	}
	// the retry after a time-out: a second call on the same Client is bounded too
	for _, st := range []string{"noop#1", "mail#1", "rcpt#1.1", "data#1", "eod#1", "noop#2", "rset#1"} {
		for _, then := range []string{"send", "reset"} {
			cfg := smtpCfg{TLS: "none"}
			out = append(out, c17Case{Cfg: cfg, Caps: []string{"8BITMIME"}, StallStep: st, Call: "send", Then: then})
		}
	}
	for _, st := range []string{"noop#1", "rset#1"} {
		out = append(out, c17Case{Cfg: smtpCfg{TLS: "none"}, Caps: []string{"8BITMIME"}, StallStep: st, Call: "reset", Then: "send"})
		out = append(out, c17Case{Cfg: smtpCfg{TLS: "mandatory"}, Caps: []string{"STARTTLS", "8BITMIME"}, StallStep: st, Call: "reset", Then: "reset"})
	}
	// many quick successful operations before the stall: the time-out does not accumulate
	for _, w := range []int{30, 60} {
		for _, st := range []string{"mail", "rcpt", "data", "eod"} {
			step := fmt.Sprintf("%s#%d", st, w+1)
			if st == "rcpt" {
				step = fmt.Sprintf("rcpt#%d.1", w+1)
			}
			out = append(out, c17Case{Cfg: smtpCfg{TLS: "none"}, Caps: []string{"8BITMIME"}, StallStep: step, Call: "send", Warmup: w})
		}
	}
	// DialAndSend without any message: dial dialogue and QUIT are bounded all the same
	for _, st := range []string{"greet", "ehlo#1", "noop#1", "quit"} {
		out = append(out, c17Case{Cfg: smtpCfg{TLS: "none"}, Caps: []string{"8BITMIME"}, StallStep: st, Call: "dialandsend-empty"})
		out = append(out, c17Case{Cfg: smtpCfg{TLS: "mandatory"}, Caps: []string{"STARTTLS", "8BITMIME"}, StallStep: st, Call: "dialandsend-empty"})
	}
	// DialAndSend again after a DialAndSend that timed out (the server stays silent at the same step)
	for _, st := range []string{"greet", "ehlo#1", "noop#1", "mail#1", "data#1", "eod#1", "quit"} {
		out = append(out, c17Case{Cfg: smtpCfg{TLS: "none"}, Caps: []string{"8BITMIME"}, StallStep: st, Call: "dialandsend", Then: "dialandsend"})
	}
	// a second DialWithContext on a Client whose established connection has gone silent: whatever the
	// library does with the old connection (today: nothing) must be bounded as well
	for _, cfg := range []smtpCfg{{TLS: "none"}, {TLS: "mandatory"}, {TLS: "none", NoNoop: true}} {
		caps := []string{"8BITMIME"}
		if cfg.TLS == "mandatory" {
			caps = []string{"STARTTLS", "8BITMIME"}
		}
		for _, st := range []string{"noop#1", "rset#1", "quit"} {
			out = append(out, c17Case{Cfg: cfg, Caps: caps, StallStep: st, Call: "redial"})
		}
	}
	// WithoutNoop: the connection check sends no NOOP, the deadline must be armed all the same
	for _, st := range []string{"mail#1", "rcpt#1.1", "data#1", "content", "eod#1", "rset#1"} {
		cfg := smtpCfg{TLS: "none", NoNoop: true}
		out = append(out, c17Case{Cfg: cfg, Caps: []string{"8BITMIME"}, StallStep: st, Call: "send"})
		out = append(out, c17Case{Cfg: cfg, Caps: []string{"8BITMIME"}, StallStep: st, Call: "dialandsend"})
	}
	out = append(out, c17Case{Cfg: smtpCfg{TLS: "none", NoNoop: true}, Caps: []string{"8BITMIME"}, StallStep: "rset#1", Call: "reset"})
	// a caller context with a deadline of its own that is far away (60 s): the configured timeout still applies
	for _, tlsp := range []string{"none", "mandatory"} {
		caps := []string{"8BITMIME", "AUTH PLAIN LOGIN"}
		steps := []string{"greet", "ehlo#1"}
		if tlsp != "none" {
			caps = append([]string{"STARTTLS"}, caps...)
			steps = append(steps, "starttls", "tlshandshake", "ehlo#2")
		}
		for _, st := range append(steps, "auth#1", "authstep#1") {
			cfg := smtpCfg{TLS: tlsp, Auth: "LOGIN-NOENC", User: "user", Pass: "secretpw"}
			out = append(out, c17Case{Cfg: cfg, Caps: caps, StallStep: st, Call: "dial", CtxMS: 60000})
			out = append(out, c17Case{Cfg: cfg, Caps: caps, StallStep: st, Call: "dialandsend", CtxMS: 60000})
		}
	}
	// the fallback-port path: the primary dial is refused, the stall happens on the fallback connection
	for _, st := range []string{"greet", "ehlo#1", "starttls", "tlshandshake", "ehlo#2", "noop#1", "mail#1", "data#1", "content", "eod#1", "quit"} {
		cfg := smtpCfg{TLS: "opportunistic", Fallback: true}
		caps := []string{"STARTTLS", "8BITMIME"}
		call := "dialandsend"
		out = append(out, c17Case{Cfg: cfg, Caps: caps, StallStep: st, Call: call})
		if st == "greet" || st == "ehlo#1" || st == "starttls" || st == "tlshandshake" || st == "ehlo#2" {
			out = append(out, c17Case{Cfg: cfg, Caps: caps, StallStep: st, Call: "dial"})
		}
	}
	return out
}

func c17Describe() {
	rec := core.Rec("C17")
	rec.Rule = "enumerated stall points: the reference server goes silent (connection held open) at {greeting, EHLO reply, STARTTLS reply, during the TLS handshake, second EHLO, the AUTH command, the first and second challenge of the exchange, NOOP, MAIL, first and second RCPT, DATA, inside the message content (server stops reading; bounded in-memory buffer so the writer blocks), end-of-data reply, the NOOP/RSET after delivery, QUIT} " +
		"x TLS policy {none, mandatory} x auth {none, PLAIN, LOGIN, CRAM-MD5, SCRAM-SHA-256} x call {DialWithContext, DialAndSend (also with an empty batch), Send, Reset}, plus the same stall points on a connection obtained through the fallback port (primary dial refused), with WithoutNoop, with a caller context whose own deadline is 60 s away, and followed by a RETRY on the same Client (Send or Reset after the call that timed out at NOOP/MAIL/RCPT/DATA/end-of-data/RSET; the retry is bounded as well), x configured timeout (100 ms in quick; 100/200/400 ms in thorough). " +
		"Also: a stall at the 31st / 61st message of one Send call on a plain connection, after 30 / 60 messages went through quickly, with a tight bound of 3 s (a deadline that grows with every successful operation). Oracle: the call returns a non-nil error within max(20 x timeout, 15 s); a miss is re-run twice in isolation and only reported if it repeats. Non-trivial: every case whose stall point is actually reached; distinct by (call, stall point, policy, auth, timeout)."
	rec.Assumptions = []string{"real clocks: the bound is >= 20x the configured timeout and at least 15 s (closing a TLS connection to a peer that no longer reads may itself take 5 s in crypto/tls)", "in-memory transport through WithDialContextFunc (deadline support implemented by the harness connection)", "boundedness is shown only for the enumerated stall points"}
}

func TestC17Enum(t *testing.T) {
	if core.ReplayArg != "" {
		t.Skip()
	}
	c17Describe()
	p := core.Prop[c17Case]{ID: "C17", Test: "TestC17", Run: c17Run}
	timeouts := []int{100}
	if core.Thorough() {
		timeouts = []int{100, 200, 400}
	}
	i := 0
	for _, base := range c17Configs() {
		for _, to := range timeouts {
			i++
			if i%core.Shards != core.Shard {
				continue
			}
			c := base
			c.Cfg.TimeoutMS = to
			if v := p.RunOne(c); v != nil {
				t.Fatalf("VIOLATION-DETAIL property=C17 %s", v)
			}
		}
	}
	core.Rec("C17").Exhaustive = true
}

// TestC17 exists for replay and regression cases (and a small random sample of the same space).
func TestC17(t *testing.T) {
	c17Describe()
	cfgs := c17Configs()
	core.Prop[c17Case]{ID: "C17", Test: "TestC17", Run: c17Run, Gen: func(t *rapid.T) c17Case {
		c := cfgs[rapid.IntRange(0, len(cfgs)-1).Draw(t, "case")]
		c.Cfg.TimeoutMS = rapid.SampledFrom([]int{50, 100, 150, 300}).Draw(t, "timeout")
		return c
	}}.Check(t)
}
