package props

import (
	"bytes"
	"errors"
	"fmt"
	"io"
	"testing"

	"pgregory.net/rapid"

	"verif/harness/core"
	"verif/harness/gen"
)

// C12 — render failures are reported: never a panic, never silent success, exact byte count.

type c12Case struct {
	Spec gen.MsgSpec `json:"spec"`
	// Ks restricts the sink offsets that are tried (nil = every offset, both sink modes).
	Ks []int `json:"ks,omitempty"`
	// SecondRender: the faulty render is preceded by a clean one (boundary/header caches set).
	SecondRender bool `json:"second_render"`
	// Sign: S/MIME-sign the message (ecdsa). The outer boundary and the signature change per render,
	// so offsets closer than 64 bytes to the end of the reference output are not tried.
	Sign bool `json:"sign,omitempty"`
	// DeleteFiles: on-disk files attached with AttachFile/EmbedFile vanish before the render: the
	// library's own file producer fails before emitting anything.
	DeleteFiles bool `json:"delete_files,omitempty"`
	// Dest: "" = a bare io.Writer; "rich" = the same destination behind Flush() error, io.StringWriter
	// and io.ReaderFrom, as *bufio.Writer and friends have them.
	Dest string `json:"dest,omitempty"`
	// SinkErr: the error value the failing destination reports: "" (a plain error), shortwrite (io.ErrShortWrite),
	// wrapped-shortwrite, closedpipe, eof.
	SinkErr string `json:"sink_err,omitempty"`
}

var errSink = errors.New("verif: injected sink failure")

// faultSink accepts exactly limit bytes. In "partial" mode the straddling Write is accepted up
// to the limit; in "whole" mode a Write that does not fit is refused entirely. After the first
// failure every Write fails. It never returns n < len(p) together with a nil error.
type faultSink struct {
	limit    int
	partial  bool
	accepted int
	failed   bool
	// errv: the error value the destination reports (nil = errSink). Real destinations report io.ErrShortWrite
	// (a full disk behind a bufio.Writer), io.ErrClosedPipe, io.EOF, syscall errors ...
	errv error
}

func (s *faultSink) fail() error {
	if s.errv != nil {
		return s.errv
	}
	return errSink
}

func (s *faultSink) Write(p []byte) (int, error) {
	if s.failed {
		return 0, s.fail()
	}
	if s.limit < 0 || s.accepted+len(p) <= s.limit {
		s.accepted += len(p)
		return len(p), nil
	}
	s.failed = true
	if s.partial {
		n := s.limit - s.accepted
		s.accepted += n
		return n, s.fail()
	}
	return 0, s.fail()
}

func sinkErrValue(kind string) error {
	switch kind {
	case "shortwrite":
		return io.ErrShortWrite
	case "closedpipe":
		return io.ErrClosedPipe
	case "eof":
		return io.EOF
	case "wrapped-shortwrite":
		return fmt.Errorf("write /var/spool/out: %w", io.ErrShortWrite)
	}
	return nil
}

// richSink is the same destination behind the optional interfaces that real destinations bring along
// (*bufio.Writer, gzip and network writers): Flush() error, io.StringWriter, io.ReaderFrom. The
// accounting stays in the faultSink; Flush reports the destination's sticky error like bufio does.
type richSink struct{ s *faultSink }

func (r *richSink) Write(p []byte) (int, error)       { return r.s.Write(p) }
func (r *richSink) WriteString(x string) (int, error) { return r.s.Write([]byte(x)) }
func (r *richSink) Flush() error {
	if r.s.failed {
		return r.s.fail()
	}
	return nil
}
func (r *richSink) ReadFrom(src io.Reader) (int64, error) {
	var total int64
	buf := make([]byte, 512)
	for {
		n, rerr := src.Read(buf)
		if n > 0 {
			k, werr := r.s.Write(buf[:n])
			total += int64(k)
			if werr != nil {
				return total, werr
			}
		}
		if rerr == io.EOF {
			return total, nil
		}
		if rerr != nil {
			return total, rerr
		}
	}
}

func c12Render(c *c12Case, sink *faultSink) (n int64, err error, panicked interface{}) {
	b, berr := gen.Build(&c.Spec, env)
	if berr != nil {
		return 0, nil, fmt.Sprintf("BUILD:%v", berr)
	}
	if c.Sign {
		chain := signingChain("ecdsa", false)
		if serr := b.Msg.SignWithKeypair(chain.Key, chain.Leaf, nil); serr != nil {
			return 0, nil, fmt.Sprintf("BUILD:%v", serr)
		}
	}
	if c.DeleteFiles && !c.SecondRender {
		b.RemoveFiles()
	}
	if c.SecondRender {
		// a clean first render; producers armed by invocation count are not consumed by it
		// because the C12 generator arms faults with FailOnCall=0 only when SecondRender is off.
		var first bytes.Buffer
		_, _ = b.Msg.WriteTo(&first)
		if c.DeleteFiles {
			b.RemoveFiles()
		}
	}
	defer func() {
		if r := recover(); r != nil {
			panicked = r
		}
	}()
	var dest io.Writer = sink
	if c.Dest == "rich" {
		dest = &richSink{sink}
	}
	n, err = b.Msg.WriteTo(dest)
	return n, err, nil
}

func c12HasProducerFault(s *gen.MsgSpec) bool {
	for _, p := range s.Parts {
		if p.Prod.Fail {
			return true
		}
	}
	for _, f := range s.Embeds {
		if f.Prod.Fail {
			return true
		}
	}
	for _, f := range s.Attachments {
		if f.Prod.Fail {
			return true
		}
	}
	return false
}

func c12Run(c c12Case) []*core.Violation {
	rec := core.Rec("C12")
	// fault-free reference render
	ref := &faultSink{limit: -1}
	refCase := c
	n, err, pan := c12Render(&refCase, ref)
	if s, ok := pan.(string); ok && len(s) > 6 && s[:6] == "BUILD:" {
		rec.Skip()
		return nil
	}
	prodFault := c12HasProducerFault(&c.Spec)
	if c.DeleteFiles {
		for _, f := range append(append([]gen.FileSpec{}, c.Spec.Embeds...), c.Spec.Attachments...) {
			if (f.Source == "file" || f.Source == "iofs") && len(f.Prod.Chunks) == 0 && !f.Prod.Fail {
				prodFault = true
			}
		}
	}
	shape := c.Spec.ShapeKey()
	if pan != nil {
		return []*core.Violation{core.V("panic", "WriteTo panicked on a healthy sink (producer fault=%v): %v", prodFault, pan)}
	}
	if prodFault {
		rec.NonTrivial(core.Join("prodfault", shape, c.SecondRender))
		rec.Class("producer-fault")
		var vs []*core.Violation
		if err == nil {
			vs = append(vs, core.V("silent-success", "a producer failed but WriteTo returned a nil error (n=%d)", n))
		}
		if int(n) != ref.accepted {
			vs = append(vs, core.V("count", "producer fault: WriteTo returned n=%d but the sink accepted %d bytes", n, ref.accepted))
		}
		return vs
	}
	if err != nil {
		return []*core.Violation{core.V("spurious-error", "WriteTo failed on a healthy sink: %v", err)}
	}
	total := ref.accepted
	if int(n) != total {
		return []*core.Violation{core.V("count", "fault-free render: WriteTo returned n=%d but wrote %d bytes", n, total)}
	}
	ks := c.Ks
	limitK := total
	if c.Sign {
		limitK = total - 64
	}
	if ks == nil {
		for k := 0; k < limitK; k++ {
			ks = append(ks, k)
		}
	}
	multipart := len(c.Spec.Parts)+len(c.Spec.Embeds)+len(c.Spec.Attachments) > 1
	for _, k := range ks {
		if k < 0 || k >= limitK {
			continue
		}
		for _, partial := range []bool{true, false} {
			sink := &faultSink{limit: k, partial: partial, errv: sinkErrValue(c.SinkErr)}
			cc := c
			n, err, pan := c12Render(&cc, sink)
			rec.AddExtra("faulty_renders", 1)
			posClass := "single"
			if multipart {
				posClass = fmt.Sprintf("multi@%d%%", (k*10/total)*10)
			}
			rec.NonTrivial(core.Join(shape, posClass, partial, c.SecondRender, c.Sign))
			if pan != nil {
				return []*core.Violation{core.V("panic", "WriteTo panicked with the sink failing at offset %d/%d (partial=%v, second render=%v): %v", k, total, partial, c.SecondRender, pan)}
			}
			if err == nil {
				return []*core.Violation{core.V("silent-success", "sink failed at offset %d/%d (partial=%v) but WriteTo returned nil error, n=%d", k, total, partial, n)}
			}
			if int(n) != sink.accepted {
				return []*core.Violation{core.V("count", "sink failed at offset %d/%d (partial=%v): WriteTo returned n=%d, sink accepted %d", k, total, partial, n, sink.accepted)}
			}
		}
	}
	rec.Class(fmt.Sprintf("p%d/e%d/a%d", len(c.Spec.Parts), len(c.Spec.Embeds), len(c.Spec.Attachments)))
	rec.Sample(fmt.Sprintf("p%d/e%d/a%d", len(c.Spec.Parts), len(c.Spec.Embeds), len(c.Spec.Attachments)),
		map[string]interface{}{"shape": shape, "output_bytes": total, "offsets_tried": len(ks), "second_render": c.SecondRender})
	return nil
}

func c12GenBase(t *rapid.T) c12Case {
	o := gen.GenOpts{
		Encodings: []string{"quoted-printable", "base64", "8bit"}, MaxParts: 3, MaxEmbeds: 2, MaxAttach: 2, AllowNoBody: true,
		PartEncs: []string{"", "", "quoted-printable", "base64", "8bit"}, FileEncs: []string{"", "", "base64", "8bit"},
		Descriptions: true, Chunking: true,
	}
	spec := gen.Program(t, o)
	if rapid.IntRange(0, 5).Draw(t, "emptysingle") == 0 {
		// the smallest message there is: one body part without content (after the header block the writer
		// has nothing left to write through the body path)
		spec.Parts = []gen.PartSpec{{CType: "text/plain", Content: nil, Via: "string"}}
		spec.Embeds, spec.Attachments, spec.Boundary = nil, nil, ""
	}
	// keep contents small: the check is exhaustive over offsets
	trim := func(b []byte) []byte {
		if len(b) > 90 {
			return b[:90]
		}
		return b
	}
	for i := range spec.Parts {
		spec.Parts[i].Content = trim(spec.Parts[i].Content)
	}
	for i := range spec.Embeds {
		spec.Embeds[i].Content = trim(spec.Embeds[i].Content)
	}
	for i := range spec.Attachments {
		spec.Attachments[i].Content = trim(spec.Attachments[i].Content)
	}
	// headers written by the paths of their own: generic, preformatted (also folded by the caller)
	if rapid.IntRange(0, 2).Draw(t, "preformatted") == 0 {
		spec.Headers = append(spec.Headers, gen.HeaderSpec{Name: "X-Pre", Values: []string{rapid.SampledFrom([]string{"one line", "v=1; a=rsa-sha256;\r\n d=verif.example; s=sel;\r\n\tbh=47DEQpj8HBSa+/TImW+5JCeuQeRkm5NMpJWZG3hSuFU="}).Draw(t, "prevalue")}, Preformat: true})
	}
	if rapid.IntRange(0, 3).Draw(t, "generic") == 0 {
		spec.Headers = append(spec.Headers, gen.HeaderSpec{Name: "X-Gen", Values: []string{"a generic header value with enough words in it to be folded over more than one line for sure, yes"}})
	}
	c := c12Case{Spec: *spec, SecondRender: rapid.Bool().Draw(t, "second"), Sign: rapid.IntRange(0, 5).Draw(t, "sign") == 0,
		Dest:    rapid.SampledFrom([]string{"", "", "rich"}).Draw(t, "dest"),
		SinkErr: rapid.SampledFrom([]string{"", "", "shortwrite", "wrapped-shortwrite", "closedpipe", "eof"}).Draw(t, "sinkerr")}
	if c.Sign {
		c.Spec.FixedDate = false
	}
	return c
}

func c12Gen(t *rapid.T) c12Case {
	c := c12GenBase(t)
	// one case in three: a producer fault instead of sink faults
	if rapid.IntRange(0, 2).Draw(t, "prodfault") == 0 {
		c12ArmProducerFault(t, &c)
	} else if rapid.IntRange(0, 3).Draw(t, "deletefiles") == 0 {
		c12ArmDeleteFiles(&c)
	}
	return c
}

// c12ArmProducerFault lets one producer of the program fail after 0..len bytes.
func c12ArmProducerFault(t *rapid.T, c *c12Case) {
	spec := &c.Spec
	n := len(spec.Parts) + len(spec.Embeds) + len(spec.Attachments)
	idx := rapid.IntRange(0, n-1).Draw(t, "which")
	var p *gen.Producer
	var content []byte
	switch {
	case idx < len(spec.Parts):
		p, content = &spec.Parts[idx].Prod, spec.Parts[idx].Content
	case idx < len(spec.Parts)+len(spec.Embeds):
		p, content = &spec.Embeds[idx-len(spec.Parts)].Prod, spec.Embeds[idx-len(spec.Parts)].Content
	default:
		k := idx - len(spec.Parts) - len(spec.Embeds)
		p, content = &spec.Attachments[k].Prod, spec.Attachments[k].Content
	}
	p.Fail = true
	p.FailAfter = rapid.IntRange(0, len(content)).Draw(t, "failafter")
	// on every invocation, or on exactly one: the first (for a signed message that is the render the
	// signature is computed from) or - signed messages only - the second (the one that is emitted)
	p.FailOnCall = rapid.SampledFrom([]int{0, 0, 1, 2}).Draw(t, "failoncall")
	if p.FailOnCall == 2 && !c.Sign {
		p.FailOnCall = 1
	}
	gen.FaultFlavour(t, spec, idx, true)
	c.SecondRender = false
}

func c12ArmDeleteFiles(c *c12Case) {
	for i := range c.Spec.Attachments {
		if c.Spec.Attachments[i].Source == "file" || c.Spec.Attachments[i].Source == "iofs" {
			c.DeleteFiles = true
		}
	}
	for i := range c.Spec.Embeds {
		if c.Spec.Embeds[i].Source == "file" || c.Spec.Embeds[i].Source == "iofs" {
			c.DeleteFiles = true
		}
	}
}

// c12Batch: many programs with a producer-side fault each (one render per program, cheap), so that
// this half of the property gets thousands of programs per run and not only the third of the few
// programs that TestC12 can afford (it tries every sink offset).
type c12Batch struct {
	Cases []c12Case `json:"cases"`
}

func c12BatchGen(t *rapid.T) c12Batch {
	var b c12Batch
	n := rapid.IntRange(1, 40).Draw(t, "nprograms")
	for i := 0; i < n; i++ {
		c := c12GenBase(t)
		if rapid.IntRange(0, 3).Draw(t, "kind") == 0 {
			c12ArmDeleteFiles(&c)
			if !c.DeleteFiles {
				c12ArmProducerFault(t, &c)
			}
		} else {
			c12ArmProducerFault(t, &c)
		}
		b.Cases = append(b.Cases, c)
	}
	return b
}

func c12BatchRun(b c12Batch) []*core.Violation {
	for i, c := range b.Cases {
		if vs := c12Run(c); len(vs) > 0 {
			for _, v := range vs {
				v.Msg = fmt.Sprintf("program %d of the batch: %s", i, v.Msg)
			}
			return vs
		}
	}
	return nil
}

func TestC12Prod(t *testing.T) {
	core.Prop[c12Batch]{ID: "C12", Test: "TestC12Prod", Gen: c12BatchGen, Run: c12BatchRun}.Check(t)
}

func TestC12(t *testing.T) {
	rec := core.Rec("C12")
	rec.Rule = "message programs drawn by rapid (0..3 parts, 0..2 embeds, 0..2 attachments, 3 encodings, all file sources, contents <= 90 bytes; optionally a preformatted header, also folded by the caller, and a long generic header); " +
		"for each program EVERY sink offset k in [0,len(output)) is tried in two sink modes (partial accept / whole-write refusal), on the first or the second render; " +
		"one program in three instead has one producer failing after 0..len bytes, on every invocation or only on the first or (S/MIME) the second one of the render (custom writer functions, or the caller's io.ReadSeeker behind the library's own AttachReadSeeker/EmbedReadSeeker producer failing in Read or in the rewind; error values ErrInjected, io.EOF, a wrapped io.EOF, io.ErrUnexpectedEOF, io.ErrClosedPipe), or its file-system backed files (on disk, or in an fs.FS) deleted before (or between) renders; TestC12Prod runs batches of up to 40 such producer-fault programs per case; one program in six is S/MIME-signed (ECDSA; offsets up to 64 bytes before the end, because boundary and signature change per render). Non-trivial: every faulty render; distinct by (shape incl. per-leaf encoding and content classes, decile of k for multipart messages, sink mode, render index)."
	rec.Assumptions = []string{"sinks obey the io.Writer contract (n<len(p) only together with an error) and keep failing after the first failure"}
	core.Prop[c12Case]{ID: "C12", Test: "TestC12", Gen: c12Gen, Run: c12Run}.Check(t)
}
