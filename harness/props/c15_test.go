package props

import (
	"crypto/hmac"
	"crypto/tls"
	"encoding/base64"
	"fmt"
	"strings"
	"testing"
	"time"

	"github.com/wneessen/go-mail/smtp"

	"verif/harness/core"
	"verif/harness/refsasl"
	"verif/harness/refsmtp"
)

// C15 — SCRAM authenticates the server.
//
// Server message alphabet:
//   A valid server-first for the running exchange      B server-first with a foreign nonce
//   C server-first with a truncated client nonce       D malformed server-first
//   E valid server-final for the running exchange      F server-final made with another key
//   G server-final computed over empty state           H empty challenge
//   I junk challenge                                   J 235 success            K 535 failure
//   L replayed server-final: the valid one of an EARLIER exchange of the same Auth object (abandoned
//     by a restart in this session, or completed on a previous connection); G's value if there is none
//   M server-final with an empty verifier ("v=")
//   Q server-final that carries the RFC 5802 server-error attribute instead of a signature ("e=invalid-proof")
//   N server-first of a server that does NOT know the password: right nonce and salt, iteration count 0
//   P server-first that is fine in every respect but has an iteration count of 10000001 (only in four
//     fixed sequences: the client really runs ten million PBKDF2 rounds)
//   O server-final made without the password: ServerKey from an all-zero SaltedPassword, over the
//     messages of the running exchange (after N: client-first, N, client-final-without-proof)

type c15Case struct {
	Mech     string `json:"mech"` // SCRAM-SHA-1 | SCRAM-SHA-256 | SCRAM-SHA-1-PLUS | SCRAM-SHA-256-PLUS
	Seq      string `json:"seq"`  // server messages, e.g. "HAEJ"
	password string // server-side password of this connection ("" = c15Pass)
	// Reuse: the same smtp.Auth object first completes a genuine exchange on another connection
	// (as happens with WithSMTPAuthCustom and two dials); its server signature is what 'L' replays.
	Reuse bool `json:"reuse,omitempty"`
	// PrevOther: before the judged connection, ANOTHER Auth value of the same user completed a genuine
	// exchange with a different password against the same salt and iteration count.
	PrevOther bool `json:"prev_other,omitempty"`
	// BadPass: the caller's password contains a character the SCRAM password profile refuses (BEL); the server
	// plays a complete, well-ordered exchange for the EMPTY password. The Auth value is used twice (the first
	// attempt is expected to fail locally). The client cannot represent its password: no attempt may succeed.
	BadPass bool `json:"bad_pass,omitempty"`
}

// c15Shared is what an attacker can have recorded earlier: the server-final of a previous exchange.
type c15Shared struct {
	lastValidSig string // signature of the most recent exchange that reached a verified client-final
	prevSig      string // signature of an exchange that is over (abandoned by a restart, or on an earlier connection)
}

type c15Result struct {
	authErr   error
	aborted   bool // the client cancelled / quit before the sequence ended
	steps     int  // number of server messages actually sent
	trace     []string
	violation *core.Violation
	legit     bool // a valid server-first followed by the valid server-final was delivered in this exchange
}

const (
	c15User      = "user"
	c15Pass      = "pencil"
	c15OtherPass = "the-previous-password"
)

const c15BadPass = "pen\u0007cil"

func c15Exec(c *c15Case) (*c15Result, *core.Violation) {
	shared := &c15Shared{}
	if c.BadPass && !strings.HasSuffix(c.Mech, "-PLUS") {
		var a smtp.Auth
		if strings.Contains(c.Mech, "SHA-1") {
			a = smtp.ScramSHA1Auth(c15User, c15BadPass)
		} else {
			a = smtp.ScramSHA256Auth(c15User, c15BadPass)
		}
		first, hv := c15Conn(c, "HAEJ", a, shared)
		if hv != nil {
			return nil, hv
		}
		if first.violation != nil || first.authErr == nil {
			return first, nil
		}
		return c15Conn(c, c.Seq, a, &c15Shared{})
	}
	if c.Reuse && !strings.HasSuffix(c.Mech, "-PLUS") {
		var a smtp.Auth
		if strings.Contains(c.Mech, "SHA-1") {
			a = smtp.ScramSHA1Auth(c15User, c15Pass)
		} else {
			a = smtp.ScramSHA256Auth(c15User, c15Pass)
		}
		first, hv := c15Conn(c, "HAEJ", a, shared)
		if hv != nil {
			return nil, hv
		}
		if first.violation != nil {
			return first, nil
		}
		if first.authErr != nil || !first.legit {
			return nil, core.V("HARNESS-reuse", "the genuine first exchange failed: %v (legit %v, trace %v)", first.authErr, first.legit, first.trace)
		}
		shared.prevSig = shared.lastValidSig
		return c15Conn(c, c.Seq, a, shared)
	}
	if c.PrevOther && !strings.HasSuffix(c.Mech, "-PLUS") {
		var a smtp.Auth
		if strings.Contains(c.Mech, "SHA-1") {
			a = smtp.ScramSHA1Auth(c15User, c15OtherPass)
		} else {
			a = smtp.ScramSHA256Auth(c15User, c15OtherPass)
		}
		other := *c
		other.password = c15OtherPass
		first, hv := c15Conn(&other, "HAEJ", a, &c15Shared{})
		if hv != nil {
			return nil, hv
		}
		if first.violation != nil {
			return first, nil
		}
		if first.authErr != nil || !first.legit {
			return nil, core.V("HARNESS-prevother", "the genuine exchange with the other password failed: %v (trace %v)", first.authErr, first.trace)
		}
	}
	return c15Conn(c, c.Seq, nil, shared)
}

func c15Conn(c *c15Case, seq string, given smtp.Auth, shared *c15Shared) (*c15Result, *core.Violation) {
	out := &c15Result{}
	pass := c15Pass
	if c.password != "" {
		pass = c.password
	}
	if c.BadPass {
		pass = "" // what a client that lost its password on the way would derive its keys from
	}
	plus := strings.HasSuffix(c.Mech, "-PLUS")
	p := refsasl.ScramParams{Hash: "SHA-256", Plus: plus, Salt: []byte("verif-salt-0123"), Iter: 4, NonceSuffix: "SrvNonce9z"}
	if strings.Contains(c.Mech, "SHA-1") {
		p.Hash = "SHA-1"
	}
	h := p.HashFunc()
	mac := func(key []byte, msg string) string {
		m := hmac.New(h, key)
		m.Write([]byte(msg))
		return base64.StdEncoding.EncodeToString(m.Sum(nil))
	}
	srvSig := func(password, authMessage string) string {
		_, _, _, serverKey := refsasl.Keys(p, password)
		m := hmac.New(h, serverKey)
		m.Write([]byte(authMessage))
		return base64.StdEncoding.EncodeToString(m.Sum(nil))
	}
	handler := func(mech string, initial []byte, io *refsmtp.AuthIO, st *tls.ConnectionState) string {
		// tracker of the running exchange
		var cf *refsasl.ClientFirst // last client-first received
		var sfValid string          // the valid server-first sent for cf ("" if none yet)
		var cfinOK bool             // a client-final that verifies was received for (cf, sfValid)
		var authMessage string
		var rogueFirst, rogueAM string // N: server-first of a server that does not know the password, and what followed
		verified := false              // valid server-final delivered and acknowledged
		classify := func(resp []byte) string {
			s := string(resp)
			switch {
			case len(resp) == 0:
				return "empty"
			case strings.HasPrefix(s, "n,,") || strings.HasPrefix(s, "p=") || strings.HasPrefix(s, "y,,"):
				return "client-first"
			case strings.HasPrefix(s, "c="):
				return "client-final"
			}
			return "other"
		}
		handle := func(sym byte, resp []byte) {
			kind := classify(resp)
			out.trace = append(out.trace, fmt.Sprintf("%c -> %s", sym, kind))
			if kind == "client-first" {
				ncf, err := refsasl.ParseClientFirst(string(resp))
				if err != nil {
					out.violation = core.V("malformed-client-first", "%v: %q", err, resp)
					return
				}
				if shared.lastValidSig != "" {
					shared.prevSig = shared.lastValidSig // the abandoned exchange's signature can be replayed
				}
				cf, sfValid, cfinOK, authMessage, verified = ncf, "", false, "", false
				rogueFirst, rogueAM = "", ""
				return
			}
			switch sym {
			case 'A':
				if kind != "client-final" {
					out.violation = core.V("no-client-final", "the client answered a valid server-first with %s (%q)", kind, resp)
					return
				}
				var cb []byte
				if plus {
					cb, _ = refsasl.ChannelBinding(st, cf.CBName)
				}
				if _, err := refsasl.VerifyFinal(p, pass, cf, sfValid, string(resp), cb); err != nil {
					out.violation = core.V("bad-client-final", "client-final does not verify: %v", err)
					return
				}
				i := strings.LastIndex(string(resp), ",p=")
				authMessage = cf.Bare + "," + sfValid + "," + string(resp)[:i]
				cfinOK = true
				shared.lastValidSig = srvSig(pass, authMessage)
			case 'P':
				// a huge but well-formed iteration count: nothing to verify here (too expensive); what
				// matters is that the client does not report success at this point
			case 'N':
				// an iteration count of 0 is not a positive number, but answering it is not yet a breach:
				// what matters is what the client accepts as proof afterwards
				if kind == "client-final" && cf != nil {
					if i := strings.LastIndex(string(resp), ",p="); i > 0 {
						rogueAM = cf.Bare + "," + rogueFirst + "," + string(resp)[:i]
					}
				}
			case 'B', 'C', 'D':
				if kind == "client-final" {
					out.violation = core.V("continued-after-invalid-server-first", "the client sent a client-final message in response to an invalid server-first (%c): %q", sym, resp)
				}
			case 'E', 'F', 'G', 'L', 'M', 'O', 'Q':
				if kind == "empty" {
					// the client acknowledged this server-final message
					if sym == 'E' && cfinOK {
						verified = true
					} else {
						out.violation = core.V("acked-invalid-server-final", "the client acknowledged a server-final message (%c) that is not the valid one for the running exchange (valid server-first sent: %v, client-final received: %v)", sym, sfValid != "", cfinOK)
					}
				}
			}
		}
		for i := 0; i < len(seq); i++ {
			sym := seq[i]
			out.steps++
			var challenge string
			switch sym {
			case 'J':
				out.legit = verified
				return "235 2.7.0 ok"
			case 'K':
				return "535 5.7.8 failed"
			case 'A':
				if cf == nil {
					// no client-first yet: a "valid server-first" cannot exist; send one for a made-up nonce
					challenge = refsasl.ServerFirst(p, "madeupnonce")
				} else {
					sfValid = refsasl.ServerFirst(p, cf.Nonce)
					challenge = sfValid
				}
			case 'B':
				// longer than any combined nonce of the running exchange
				challenge = refsasl.ServerFirst(p, "ForeignNonceThatIsNotTheClientsButAtLeastAsLongAsAnyCombinedNonceOfTheExchange0123456789")
			case 'N':
				// a server that does not know the password: right nonce, right salt, iteration count 0
				n := "madeupnonce"
				if cf != nil {
					n = cf.Nonce
				}
				rogueFirst = "r=" + n + p.NonceSuffix + ",s=" + base64.StdEncoding.EncodeToString(p.Salt) + ",i=0"
				challenge = rogueFirst
			case 'P':
				// a server-first that is fine in every respect, with an iteration count of ten million and one
				n := "madeupnonce"
				if cf != nil {
					n = cf.Nonce
				}
				challenge = "r=" + n + p.NonceSuffix + ",s=" + base64.StdEncoding.EncodeToString(p.Salt) + ",i=10000001"
			case 'O':
				// server-final made WITHOUT the password: ServerKey derived from an all-zero SaltedPassword,
				// over the messages of the running exchange
				am := rogueAM
				if am == "" {
					am = authMessage
				}
				zero := make([]byte, h().Size())
				m := hmac.New(h, zero)
				m.Write([]byte("Server Key"))
				challenge = "v=" + mac(m.Sum(nil), am)
			case 'C':
				n := "x"
				if cf != nil && len(cf.Nonce) > 4 {
					n = cf.Nonce[:len(cf.Nonce)-4]
				}
				challenge = "r=" + n + ",s=" + base64.StdEncoding.EncodeToString(p.Salt) + ",i=4"
			case 'D':
				n := "x"
				if cf != nil {
					n = cf.Nonce
				}
				challenge = "r=" + n + p.NonceSuffix + ",s=!!notbase64!!"
			case 'E':
				if cfinOK {
					challenge = "v=" + srvSig(pass, authMessage)
				} else {
					// no verified client-final in this exchange: the best a server can do is sign what it has
					am := ""
					if cf != nil {
						am = cf.Bare + "," + sfValid + ","
					}
					challenge = "v=" + srvSig(pass, am)
				}
			case 'F':
				challenge = "v=" + srvSig("another-password", authMessage)
			case 'G':
				// ServerSignature over empty state: HMAC(HMAC("", "Server Key"), "")
				m := hmac.New(h, nil)
				m.Write([]byte("Server Key"))
				challenge = "v=" + mac(m.Sum(nil), "")
			case 'L':
				if shared.prevSig != "" {
					challenge = "v=" + shared.prevSig
				} else {
					m := hmac.New(h, nil)
					m.Write([]byte("Server Key"))
					challenge = "v=" + mac(m.Sum(nil), "")
				}
			case 'Q':
				challenge = "e=invalid-proof" // RFC 5802 server-error: a server-final message WITHOUT a signature
			case 'M':
				challenge = "v=" // a server-final message with an EMPTY verifier
			case 'H':
				challenge = ""
			case 'I':
				challenge = "junk that is not a scram message"
			default:
				out.violation = core.V("HARNESS-symbol", "bad symbol %c", sym)
				return "535 bad"
			}
			resp, err := io.Challenge([]byte(challenge))
			if err != nil {
				out.aborted = true
				out.trace = append(out.trace, fmt.Sprintf("%c -> abort (%v)", sym, err))
				return "501 5.5.2 cancelled"
			}
			handle(sym, resp)
			if out.violation != nil {
				return "535 5.7.8 harness stops here"
			}
		}
		return "535 5.7.8 sequence exhausted"
	}
	srv := refsmtp.NewServer(refsmtp.Script{Caps: []string{"AUTH " + c.Mech}, NoGreetProbe: true})
	srv.Auth = handler
	srv.TLS = serverTLS(tls.VersionTLS12)
	cl, sv := refsmtp.NewBufPipe(0)
	sess := srv.Serve(sv, plus)
	defer func() {
		_ = cl.Close()
		select {
		case <-sess.Done:
		case <-time.After(5 * time.Second):
		}
	}()
	var conn interface {
		Close() error
	} = cl
	done := make(chan error, 1)
	go func() {
		var client *smtp.Client
		var err error
		var a smtp.Auth
		if plus {
			tc := tls.Client(cl, clientTLS())
			if err = tc.Handshake(); err != nil {
				done <- fmt.Errorf("HARNESS handshake: %w", err)
				return
			}
			st := tc.ConnectionState()
			client, err = smtp.NewClient(tc, refHost)
			if err == nil {
				if strings.Contains(c.Mech, "SHA-1") {
					a = smtp.ScramSHA1PlusAuth(c15User, c15Pass, &st)
				} else {
					a = smtp.ScramSHA256PlusAuth(c15User, c15Pass, &st)
				}
			}
		} else {
			client, err = smtp.NewClient(cl, refHost)
			switch {
			case given != nil:
				a = given
			case strings.Contains(c.Mech, "SHA-1"):
				a = smtp.ScramSHA1Auth(c15User, c15Pass)
			default:
				a = smtp.ScramSHA256Auth(c15User, c15Pass)
			}
		}
		if err != nil {
			done <- fmt.Errorf("HARNESS newclient: %w", err)
			return
		}
		if err = client.Hello("client.verif.example"); err != nil {
			done <- fmt.Errorf("HARNESS hello: %w", err)
			return
		}
		aerr := client.Auth(a)
		_ = client.Close()
		done <- aerr
	}()
	_ = conn
	select {
	case err := <-done:
		if err != nil && strings.HasPrefix(err.Error(), "HARNESS") {
			return nil, core.V("HARNESS-setup", "%v", err)
		}
		out.authErr = err
	case <-time.After(c15Patience(seq)):
		return nil, core.V("HARNESS-timeout", "Auth did not return for sequence %s", seq)
	}
	_ = cl.Close()
	select {
	case <-sess.Done:
	case <-time.After(5 * time.Second):
	}
	return out, nil
}

// c15Patience: ten million PBKDF2 rounds (symbol P) take seconds on an idle core and much longer on a
// busy machine; everything else is immediate.
func c15Patience(seq string) time.Duration {
	if strings.Contains(seq, "P") {
		return 5 * time.Minute
	}
	return 15 * time.Second
}

func c15Run(c c15Case) []*core.Violation {
	rec := core.Rec("C15")
	out, hv := c15Exec(&c)
	if hv != nil {
		return []*core.Violation{hv}
	}
	var vs []*core.Violation
	if out.violation != nil {
		v := *out.violation
		v.Msg += fmt.Sprintf(" [%s %s; trace %v]", c.Mech, c.Seq, out.trace)
		vs = append(vs, &v)
	}
	if out.authErr == nil && !out.legit {
		last := byte('?')
		if out.steps > 0 && out.steps <= len(c.Seq) {
			last = c.Seq[out.steps-1]
		}
		key := "success-without-server-proof"
		if last == 'J' {
			key = "scram-bare-235"
		}
		vs = append(vs, core.V(key, "Auth returned nil for the server sequence %s (%s) although no valid server-final for the running exchange was delivered before the %c; trace %v", c.Seq, c.Mech, last, out.trace))
	}
	if c.BadPass {
		// the tracker judges the exchange against the empty password; here the point is another one
		vs = nil
		if out.authErr == nil {
			vs = append(vs, core.V("success-with-unrepresentable-password", "the caller's password contains a character the SCRAM profile refuses, yet Auth returned nil on a reused Auth value against a server that holds the EMPTY password (%s, sequence %s); trace %v", c.Mech, c.Seq, out.trace))
		}
		for _, tr := range out.trace {
			if strings.HasPrefix(tr, "E -> empty") {
				vs = append(vs, core.V("acked-invalid-server-final", "the client acknowledged a server signature made with the EMPTY password although the caller's password is another one that it cannot even represent (%s); trace %v", c.Mech, out.trace))
				break
			}
		}
		rec.AddExtra("unrepresentable_password_sequences", 1)
		return vs
	}
	if out.authErr != nil && out.legit {
		vs = append(vs, core.V("legit-exchange-failed", "a complete, valid exchange (%s) ended in the error %v; trace %v", c.Seq, out.authErr, out.trace))
	}
	if strings.ContainsAny(c.Seq, "AEFGLM") {
		rec.NonTrivial(fmt.Sprintf("%s/%s/%v/%v", c.Mech, c.Seq, c.Reuse, c.PrevOther))
		rec.Sample(fmt.Sprintf("%s/%d/%v", c.Mech, len(c.Seq), out.authErr == nil), map[string]interface{}{"mech": c.Mech, "sequence": c.Seq, "trace": out.trace, "auth_error": fmt.Sprint(out.authErr), "legit": out.legit})
	}
	return vs
}

func c15Describe() {
	rec := core.Rec("C15")
	rec.Rule = "bounded-exhaustive: every server message sequence of length <= 5 (PLUS variants <= 4) in quick and <= 7 (PLUS <= 6) in thorough over the alphabet {A valid server-first, B server-first with a foreign nonce (longer than the combined nonce), C with truncated nonce, D malformed server-first, E valid server-final, F server-final made with another key, G server-final over empty state, H empty challenge, I junk, J 235, K 535, L replayed valid server-final of an earlier exchange of the same Auth object, M server-final with an empty verifier, Q server-final with the server-error attribute e=... instead of a signature, N server-first with the right nonce and salt but iteration count 0 (a server that does not know the password), O server-final made from an all-zero SaltedPassword over the running exchange}, plus the sequences HP, HPK, HPM, HPO with P = a well-formed server-first whose iteration count is 10000001, for SCRAM-SHA-1, SCRAM-SHA-256 and both PLUS variants (over a real TLS 1.2 handshake on an in-memory connection), driven through smtp.Client.Auth, also with an Auth object that completed a genuine exchange on an earlier connection (reuse, sequences <= 4 / <= 6), and after another Auth value of the same user completed an exchange with a different password against the same salt and iteration count; depth-first with pruning once the client has aborted or the exchange ended. Plus: a caller password the SCRAM profile refuses (BEL inside), an Auth value used twice, and a server that plays complete, well-ordered exchanges for the EMPTY password (HAEJ, AEJ, HAEK, HAJ): no attempt may succeed. " +
		"Oracle (reference tracker of the exchange): Auth returns nil only if, since the last client-first, the valid server-first was answered by a verifying client-final and the valid server-final was acknowledged before the 235; the client sends client-final only after a valid server-first and acknowledges a v= message only when it is the valid one; a complete valid exchange succeeds. " +
		"Non-trivial: the sequence contains a message that is valid for some exchange (A, E, F, G, L or M). Distinct by (mechanism, sequence)."
	rec.Assumptions = []string{"PBKDF2 iteration count 4 to keep the enumeration cheap", "known finding scram-bare-235: a 235 is accepted whatever preceded it; counted and excluded by signature"}
}

// TestC15 exists for replay/regression of single sequences.
func TestC15(t *testing.T) {
	c15Describe()
	core.Prop[c15Case]{ID: "C15", Test: "TestC15", Run: c15Run}.Check(t)
}

func TestC15Enum(t *testing.T) {
	if core.ReplayArg != "" {
		t.Skip()
	}
	c15Describe()
	p := core.Prop[c15Case]{ID: "C15", Test: "TestC15", Run: c15Run}
	alphabet := "ABCDEFGHIJKLMNOQ"
	type job struct {
		mech  string
		max   int
		reuse bool
		prev  bool
	}
	jobs := []job{{"SCRAM-SHA-1", 5, false, false}, {"SCRAM-SHA-256", 5, false, false}, {"SCRAM-SHA-1-PLUS", 4, false, false}, {"SCRAM-SHA-256-PLUS", 4, false, false}, {"SCRAM-SHA-1", 4, true, false}, {"SCRAM-SHA-256", 4, true, false}, {"SCRAM-SHA-1", 4, false, true}, {"SCRAM-SHA-256", 4, false, true}}
	if core.Thorough() {
		jobs = []job{{"SCRAM-SHA-1", 7, false, false}, {"SCRAM-SHA-256", 7, false, false}, {"SCRAM-SHA-1-PLUS", 6, false, false}, {"SCRAM-SHA-256-PLUS", 6, false, false}, {"SCRAM-SHA-1", 6, true, false}, {"SCRAM-SHA-256", 6, true, false}, {"SCRAM-SHA-1", 6, false, true}, {"SCRAM-SHA-256", 6, false, true}}
	}
	n := 0
	for _, j := range jobs {
		var dfs func(prefix string)
		dfs = func(prefix string) {
			for k := 0; k < len(alphabet); k++ {
				seq := prefix + string(alphabet[k])
				// shard on the first two symbols
				if len(seq) == 2 {
					n++
					if n%core.Shards != core.Shard {
						continue
					}
				}
				run := len(seq) >= 2 || core.Shard == 0
				var aborted bool
				if run {
					c := c15Case{Mech: j.mech, Seq: seq, Reuse: j.reuse, PrevOther: j.prev}
					out, hv := c15Exec(&c)
					if hv != nil {
						t.Fatalf("HARNESS-ERROR: %v", hv)
					}
					aborted = out.aborted || out.steps < len(seq)
					core.Rec("C15").AddExtra("sequences_run", 1)
					if v := p.RunOne(c); v != nil {
						t.Fatalf("VIOLATION-DETAIL property=C15 %s", v)
					}
				} else {
					// length-1 prefixes are run by shard 0 only; still need to know whether to descend
					c := c15Case{Mech: j.mech, Seq: seq, Reuse: j.reuse, PrevOther: j.prev}
					out, hv := c15Exec(&c)
					if hv != nil {
						t.Fatalf("HARNESS-ERROR: %v", hv)
					}
					aborted = out.aborted || out.steps < len(seq)
				}
				last := alphabet[k]
				if aborted || last == 'J' || last == 'K' || len(seq) >= j.max {
					if aborted {
						core.Rec("C15").AddExtra("prefixes_pruned_after_abort", 1)
					}
					continue
				}
				dfs(seq)
			}
		}
		dfs("")
	}
	// a well-formed server-first with a huge iteration count (P): the exchange goes on or fails, it is
	// never reported as successful at that point. Few sequences only: each costs the client ten million
	// PBKDF2 rounds.
	bad := 0
	for _, mech := range []string{"SCRAM-SHA-1", "SCRAM-SHA-256"} {
		for _, seq := range []string{"HAEJ", "AEJ", "HAEK", "HAJ"} {
			bad++
			if bad%core.Shards != core.Shard {
				continue
			}
			if v := p.RunOne(c15Case{Mech: mech, Seq: seq, BadPass: true}); v != nil {
				t.Fatalf("VIOLATION-DETAIL property=C15 %s", v)
			}
		}
	}
	huge := 0
	for _, mech := range []string{"SCRAM-SHA-1", "SCRAM-SHA-256"} {
		for _, seq := range []string{"HP", "HPK", "HPM", "HPO"} {
			huge++
			if huge%core.Shards != core.Shard {
				continue
			}
			core.Rec("C15").AddExtra("huge_iteration_count_sequences", 1)
			if v := p.RunOne(c15Case{Mech: mech, Seq: seq}); v != nil {
				t.Fatalf("VIOLATION-DETAIL property=C15 %s", v)
			}
		}
	}
	core.Rec("C15").Exhaustive = true
}
