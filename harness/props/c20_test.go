package props

import (
	"context"
	"errors"
	"fmt"
	"regexp"
	"sort"
	"strings"
	"testing"
	"time"

	mail "github.com/wneessen/go-mail"
	"pgregory.net/rapid"

	"verif/harness/core"
	"verif/harness/refsmtp"
)

// C20 — SendError reflects the server's verdict.

type c20Fault struct {
	Msg  int    `json:"msg"`  // 1-based message index
	Pos  string `json:"pos"`  // mail | rcpt | data | eod | rset
	Rcpt int    `json:"rcpt"` // 1-based recipient index for pos=rcpt
	Code int    `json:"code"`
	Text string `json:"text"` // may be multi-line ("\n")
}

type c20Case struct {
	NRcpt  []int      `json:"nrcpt"` // recipients per message
	ESC    bool       `json:"esc"`   // ENHANCEDSTATUSCODES advertised
	Faults []c20Fault `json:"faults"`
	// TwoConns: the Client holds two connections at once (DialToSMTPClientWithContext twice); the
	// second one goes to a server that advertises the OPPOSITE of ESC; the messages are sent over the
	// first connection with SendWithSMTPClient. What counts is what the connection in use advertised.
	TwoConns bool `json:"two_conns,omitempty"`
	// AbandonRset (code 4yz/5yz, 0 = none): the first RSET that abandons a refused message is refused
	// as well, so the library gives the connection up; every later message of the batch is then a failed
	// message too (it carries an error and has its entry in the joined error).
	AbandonRset int `json:"abandon_rset,omitempty"`
	// NilBefore > 0: the slice handed to Send has a nil entry in front of message number NilBefore.
	NilBefore int `json:"nil_before,omitempty"`
}

var escLead = regexp.MustCompile(`^([245]\.\d{1,3}\.\d{1,3})(?:\s|$)`)

func (f c20Fault) step() string {
	switch f.Pos {
	case "mail":
		return fmt.Sprintf("mail#%d", f.Msg)
	case "rcpt":
		return fmt.Sprintf("rcpt#%d.%d", f.Msg, f.Rcpt)
	case "data":
		return fmt.Sprintf("data#%d", f.Msg)
	case "eod":
		return fmt.Sprintf("eod#%d", f.Msg)
	}
	return fmt.Sprintf("rsetafter#%d", f.Msg)
}

func c20Run(c c20Case) []*core.Violation {
	rec := core.Rec("C20")
	caps := []string{"8BITMIME"}
	if c.ESC {
		caps = append(caps, "ENHANCEDSTATUSCODES")
	}
	steps := map[string]refsmtp.Outcome{}
	for _, f := range c.Faults {
		steps[f.step()] = refsmtp.Outcome{Kind: "reply", Code: f.Code, Text: f.Text}
	}
	if c.AbandonRset != 0 {
		steps["rsetabandon#1"] = refsmtp.Outcome{Kind: "reply", Code: c.AbandonRset, Text: "4.3.0 not now"}
	}
	srv := refsmtp.NewServer(refsmtp.Script{Caps: caps, Steps: steps, NoGreetProbe: true})
	d := &refsmtp.Dialer{Srv: srv}
	cfg := smtpCfg{TLS: "none"}
	cl, err := mail.NewClient(refHost, cfg.options(d)...)
	if err != nil {
		return []*core.Violation{core.V("HARNESS-newclient", "%v", err)}
	}
	var msgs []*mail.Msg
	for i, n := range c.NRcpt {
		msgs = append(msgs, simpleMsg(i+1, n, "quoted-printable"))
	}
	var sendErr, dialErr error
	res := watchdog(20*time.Second, d, func() error {
		if c.TwoConns {
			sc1, err := cl.DialToSMTPClientWithContext(context.Background())
			if err != nil {
				dialErr = err
				return nil
			}
			otherCaps := []string{"8BITMIME"}
			if !c.ESC {
				otherCaps = append(otherCaps, "ENHANCEDSTATUSCODES")
			}
			d.Srv = refsmtp.NewServer(refsmtp.Script{Caps: otherCaps, NoGreetProbe: true})
			sc2, err := cl.DialToSMTPClientWithContext(context.Background())
			if err != nil {
				dialErr = err
				_ = cl.CloseWithSMTPClient(sc1)
				return nil
			}
			sendErr = cl.SendWithSMTPClient(sc1, msgs...)
			_ = cl.CloseWithSMTPClient(sc1)
			_ = cl.CloseWithSMTPClient(sc2)
			return nil
		}
		if dialErr = cl.DialWithContext(context.Background()); dialErr != nil {
			return nil
		}
		sendList := msgs
		if c.NilBefore > 0 && c.NilBefore <= len(msgs) {
			// a nil entry in the slice handed to Send is skipped; everything else is as without it
			sendList = nil
			for i, m := range msgs {
				if i+1 == c.NilBefore {
					sendList = append(sendList, nil)
				}
				sendList = append(sendList, m)
			}
		}
		sendErr = cl.Send(sendList...)
		_ = cl.Close()
		return nil
	})
	d.Shutdown()
	if res.Panic != nil {
		return []*core.Violation{core.V("panic", "client panicked: %v", res.Panic)}
	}
	if res.TimedOut || dialErr != nil {
		rec.AddExtra("inconclusive", 1)
		return nil
	}
	sess := d.Sessions[0]
	tr := sess.Transcript(60)
	var vs []*core.Violation
	// the model: which fault hits each message first
	failed := 0
	connLost := false
	for i := range msgs {
		idx := i + 1
		if connLost {
			// the connection was given up after a refused abandoning RSET: this message cannot be sent
			failed++
			var se *mail.SendError
			if !msgs[i].HasSendError() || !errors.As(msgs[i].SendError(), &se) {
				vs = append(vs, core.V("missing-error", "message %d comes after the connection was given up (abandoning RSET refused with %d) but carries no *SendError (HasSendError=%v)\n%s", idx, c.AbandonRset, msgs[i].HasSendError(), tr))
			} else if msgs[i].IsDelivered() {
				vs = append(vs, core.V("missing-error", "message %d is marked delivered although the connection had been given up", idx))
			}
			continue
		}
		var mine []c20Fault
		for _, f := range c.Faults {
			if f.Msg == idx {
				mine = append(mine, f)
			}
		}
		byPos := map[string][]c20Fault{}
		for _, f := range mine {
			byPos[f.Pos] = append(byPos[f.Pos], f)
		}
		var expect *c20Fault
		var wantReason mail.SendErrReason
		var rejected []string
		switch {
		case len(byPos["mail"]) > 0:
			expect, wantReason = &byPos["mail"][0], mail.ErrSMTPMailFrom
		case len(byPos["rcpt"]) > 0:
			fs := byPos["rcpt"]
			sort.Slice(fs, func(a, b int) bool { return fs[a].Rcpt < fs[b].Rcpt })
			for _, f := range fs {
				rejected = append(rejected, fmt.Sprintf("r%d.%d@rcpt.verif.example", idx, f.Rcpt-1))
			}
			expect, wantReason = &fs[len(fs)-1], mail.ErrSMTPRcptTo
		case len(byPos["data"]) > 0:
			expect, wantReason = &byPos["data"][0], mail.ErrSMTPData
		case len(byPos["eod"]) > 0:
			expect, wantReason = &byPos["eod"][0], mail.ErrSMTPDataClose
		case len(byPos["rset"]) > 0:
			expect, wantReason = &byPos["rset"][0], mail.ErrSMTPReset
		}
		if expect != nil && c.AbandonRset != 0 && (wantReason == mail.ErrSMTPMailFrom || wantReason == mail.ErrSMTPRcptTo || wantReason == mail.ErrSMTPData) {
			connLost = true // for the messages behind this one
		}
		m := msgs[i]
		if expect == nil {
			if m.HasSendError() {
				vs = append(vs, core.V("spurious-error", "message %d was not affected by any reply but carries the error %v\n%s", idx, m.SendError(), tr))
			}
			continue
		}
		failed++
		var se *mail.SendError
		if !m.HasSendError() || !errors.As(m.SendError(), &se) {
			vs = append(vs, core.V("missing-error", "message %d got %d at %s but carries no *SendError (HasSendError=%v)\n%s", idx, expect.Code, expect.step(), m.HasSendError(), tr))
			continue
		}
		where := fmt.Sprintf("message %d (reply %d %q at %s)", idx, expect.Code, expect.Text, expect.step())
		if se.Reason != wantReason {
			vs = append(vs, core.V("wrong-reason", "%s: Reason is %q, expected %q", where, se.Reason, wantReason))
		}
		if se.ErrorCode() != expect.Code {
			vs = append(vs, core.V("wrong-code", "%s: ErrorCode()=%d", where, se.ErrorCode()))
		}
		if se.IsTemp() != (expect.Code/100 == 4) {
			vs = append(vs, core.V("wrong-temp", "%s: IsTemp()=%v (error text %q)", where, se.IsTemp(), se.Error()))
		}
		if m.SendErrorIsTemp() != (expect.Code/100 == 4) {
			vs = append(vs, core.V("wrong-temp", "%s: Msg.SendErrorIsTemp()=%v", where, m.SendErrorIsTemp()))
		}
		wantESC := ""
		if c.ESC {
			first := strings.SplitN(expect.Text, "\n", 2)[0]
			if mt := escLead.FindStringSubmatch(first); mt != nil {
				wantESC = mt[1]
			}
		}
		if se.EnhancedStatusCode() != wantESC {
			vs = append(vs, core.V("wrong-enhanced-code", "%s, ENHANCEDSTATUSCODES advertised=%v: EnhancedStatusCode()=%q, expected %q", where, c.ESC, se.EnhancedStatusCode(), wantESC))
		}
		if se.Msg() != m {
			vs = append(vs, core.V("wrong-msg", "%s: SendError.Msg() is not the affected message", where))
		}
		if se.MessageID() != m.GetMessageID() {
			vs = append(vs, core.V("wrong-msg", "%s: SendError.MessageID()=%q, the affected message has %q", where, se.MessageID(), m.GetMessageID()))
		}
		// errors.Is against a SendError value that names a step: a caller can only build a permanent one
		// (the temporariness is not settable from outside), so it matches exactly the permanent failures
		// of that step - through Msg.SendError() and through the joined error of the whole call
		for _, r := range []mail.SendErrReason{mail.ErrSMTPMailFrom, mail.ErrSMTPRcptTo, mail.ErrSMTPData, mail.ErrSMTPDataClose, mail.ErrSMTPReset, mail.ErrWriteContent, mail.ErrConnCheck, mail.ErrNoUnencoded, mail.ErrGetSender, mail.ErrGetRcpts, mail.ErrAmbiguous} {
			want := r == wantReason && expect.Code/100 == 5
			if got := errors.Is(m.SendError(), &mail.SendError{Reason: r}); got != want {
				vs = append(vs, core.V("wrong-is", "%s: errors.Is(Msg.SendError(), &SendError{Reason: %q}) = %v, expected %v", where, r, got, want))
				break
			}
		}
		// recipients listed
		text := se.Error()
		var listed []string
		if k := strings.Index(text, "affected recipient(s): "); k >= 0 {
			rest := text[k+len("affected recipient(s): "):]
			if j := strings.Index(rest, ", affected message ID"); j >= 0 {
				rest = rest[:j]
			}
			for _, r := range strings.Split(rest, ", ") {
				listed = append(listed, strings.TrimSpace(r))
			}
		}
		if strings.Join(listed, ",") != strings.Join(rejected, ",") {
			vs = append(vs, core.V("wrong-recipients", "%s: error lists recipients %v, rejected were %v (error %q)", where, listed, rejected, text))
		}
	}
	// joined error: one entry per failed message
	var entries []error
	if sendErr != nil {
		if j, ok := sendErr.(interface{ Unwrap() []error }); ok {
			entries = j.Unwrap()
		} else {
			entries = []error{sendErr}
		}
	}
	if len(entries) != failed {
		vs = append(vs, core.V("wrong-join", "Send returned %d error entries, %d messages failed (%v)", len(entries), failed, sendErr))
	} else {
		k := 0
		for i, m := range msgs {
			if m.HasSendError() {
				if k >= len(entries) || entries[k] != m.SendError() {
					vs = append(vs, core.V("wrong-join", "entry %d of the joined error is not Msg.SendError() of message %d", k, i+1))
				}
				k++
			}
		}
	}
	// evidence
	nt := false
	var keys []string
	for _, f := range c.Faults {
		if f.Code != 450 && f.Code != 550 {
			nt = true
		}
		kind := "plain"
		switch {
		case strings.Contains(f.Text, "\n"):
			kind = "multiline"
		case escLead.MatchString(f.Text):
			kind = "esc"
		case regexp.MustCompile(`\d\.\d+\.\d`).MatchString(f.Text):
			kind = "esc-later"
		}
		rec.Class("pos:" + f.Pos)
		rec.Class("text:" + kind)
		keys = append(keys, fmt.Sprintf("%d:%s:%d:%s", f.Msg, f.Pos, f.Code, kind))
	}
	rejectedPartial := false
	for i, n := range c.NRcpt {
		r := 0
		for _, f := range c.Faults {
			if f.Msg == i+1 && f.Pos == "rcpt" {
				r++
			}
		}
		if r > 0 && r < n {
			rejectedPartial = true
		}
	}
	if nt || rejectedPartial {
		sort.Strings(keys)
		rec.NonTrivial(core.Join(fmt.Sprint(c.NRcpt), c.ESC, strings.Join(keys, ","), c.TwoConns, c.AbandonRset))
		rec.Sample(fmt.Sprintf("%d/%v", len(c.Faults), c.ESC), map[string]interface{}{"nrcpt": c.NRcpt, "esc_advertised": c.ESC, "faults": c.Faults})
	}
	return vs
}

var c20Texts = []string{
	"no", "mailbox unavailable", "Requested action not taken: mailbox unavailable",
	"5.7.1 rejected for policy reasons", "4.3.0 try again later", "5.1.1 user unknown", "4.7.0 greylisted", "2.0.0 weird class", "5.7.26 multiple auth checks failed", "5.123.456 long detail",
	"no data for you from 10.2.3.4", "running ESMTP 4.2.1 here", "rejected by host 5.5.5.5 policy", "error in version 2.3.4", "see RFC 5.2.1",
	"5.7.1", "5.7.1rejected", "5.7 short", "5.7.1.2 too many", "x5.1.1 prefixed",
	"Transaction failed, upstream said: 550 5.1.1 User unknown", "Sender verify deferred (callout got 450 4.4.3 timeout)", "relay said 250 2.0.0 ok, then 554 5.7.1 no", "<550 5.1.1> quoted", "see (5.1.1) or [4.4.3]",
	"5.7.1 first line\n5.7.1 second line", "first line\nsecond line", "4.2.2 mailbox full\nsee 10.0.0.1",
}

func c20GenFault(t *rapid.T, msg int, nrcpt int, pos string) c20Fault {
	f := c20Fault{Msg: msg, Pos: pos}
	f.Code = rapid.IntRange(400, 599).Draw(t, "code")
	f.Text = rapid.SampledFrom(c20Texts).Draw(t, "text")
	if pos == "rcpt" {
		f.Rcpt = rapid.IntRange(1, nrcpt).Draw(t, "rcptidx")
	}
	return f
}

func c20Gen(t *rapid.T) c20Case {
	c := c20Case{ESC: rapid.Bool().Draw(t, "esc"), TwoConns: rapid.IntRange(0, 3).Draw(t, "twoconns") == 0}
	if rapid.IntRange(0, 4).Draw(t, "abandonrset") == 0 {
		c.AbandonRset = rapid.SampledFrom([]int{451, 421, 503, 554}).Draw(t, "abandonrsetcode")
	}
	n := rapid.IntRange(1, 4).Draw(t, "nmsgs")
	if !c.TwoConns && rapid.IntRange(0, 5).Draw(t, "nilentry") == 0 {
		c.NilBefore = rapid.IntRange(1, n).Draw(t, "nilbefore")
	}
	for i := 0; i < n; i++ {
		c.NRcpt = append(c.NRcpt, rapid.IntRange(1, 4).Draw(t, "nrcpt"))
	}
	seen := map[string]bool{}
	nf := rapid.IntRange(1, 4).Draw(t, "nfaults")
	for i := 0; i < nf; i++ {
		msg := rapid.IntRange(1, n).Draw(t, "faultmsg")
		pos := rapid.SampledFrom([]string{"mail", "rcpt", "rcpt", "rcpt", "data", "eod", "rset"}).Draw(t, "pos")
		f := c20GenFault(t, msg, c.NRcpt[msg-1], pos)
		if seen[f.step()] {
			continue
		}
		seen[f.step()] = true
		c.Faults = append(c.Faults, f)
	}
	return c
}

func c20Describe() {
	rec := core.Rec("C20")
	rec.Rule = "batches of 1..4 messages x 1..4 recipients sent with Client.Send to the reference server, which answers 1..4 chosen commands (MAIL, individual RCPTs, DATA, end-of-data, the RSET after a delivered message) with a reply code from 400..599 and a text from {plain, leading well-formed enhanced code, enhanced-looking material later in the text (IPv4 addresses, version numbers, quoted replies of an upstream server such as '550 5.1.1 User unknown'), malformed enhanced codes, multi-line}, with ENHANCEDSTATUSCODES advertised or not. " +
		"One case in five also refuses the RSET that abandons the first refused message (the library gives the connection up): every later message of the batch then carries an error and has its entry in the joined error. One case in four holds two connections of the same Client at once (DialToSMTPClientWithContext twice, the second to a server advertising the opposite of ENHANCEDSTATUSCODES) and sends over the first with SendWithSMTPClient. TestC20Enum (thorough) enumerates all 200 codes x 5 positions x ESC on/off x 5 text kinds for a single message. " +
		"Oracle, computed from what the server sent: Reason names the step, ErrorCode() == code, IsTemp() <=> 4yz, EnhancedStatusCode() == leading enhanced code iff advertised and the reply began with one, the recipients listed == exactly the rejected ones with code/temp/enhanced code of the last rejection, unaffected messages carry no error, Send's joined error has one entry per failed message and Msg.SendError() is that entry. " +
		"Non-trivial: a code other than 450/550 or a partial recipient rejection. Distinct by (batch, ESC, fault list)."
	rec.Assumptions = []string{"only 'reply' outcomes are injected (no disconnects), so every message reaches its MAIL command", "NOOP replies are not faulted (not in the property's quantifier)"}
}

func TestC20(t *testing.T) {
	c20Describe()
	core.Prop[c20Case]{ID: "C20", Test: "TestC20", Gen: c20Gen, Run: c20Run}.Check(t)
}

// TestC20Enum: all codes 400..599 x positions x ESC x text kinds for one message with 2 recipients.
func TestC20Enum(t *testing.T) {
	if core.ReplayArg != "" || !core.Thorough() {
		t.Skip()
	}
	c20Describe()
	p := core.Prop[c20Case]{ID: "C20", Test: "TestC20", Run: c20Run}
	texts := []string{"mailbox unavailable", "5.7.1 rejected for policy reasons", "no data for you from 10.2.3.4", "4.2.2 mailbox full\nsee 10.0.0.1", "Transaction failed, upstream said: 550 5.1.1 User unknown"}
	idx := 0
	for code := 400; code <= 599; code++ {
		for _, pos := range []string{"mail", "rcpt", "data", "eod", "rset"} {
			for _, esc := range []bool{false, true} {
				for _, text := range texts {
					idx++
					if idx%core.Shards != core.Shard {
						continue
					}
					c := c20Case{NRcpt: []int{2}, ESC: esc, Faults: []c20Fault{{Msg: 1, Pos: pos, Rcpt: 2, Code: code, Text: text}}}
					core.Rec("C20").AddExtra("enumerated_code_position_cases", 1)
					if v := p.RunOne(c); v != nil {
						t.Fatalf("VIOLATION-DETAIL property=C20 %s", v)
					}
				}
			}
		}
	}
}
