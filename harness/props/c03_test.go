package props

import (
	"bytes"
	"context"
	"crypto/ed25519"
	"crypto/rand"
	"fmt"
	"sort"
	"strings"
	"testing"
	"time"

	mail "github.com/wneessen/go-mail"
	"pgregory.net/rapid"

	"verif/harness/core"
	"verif/harness/gen"
	"verif/harness/refsmtp"
)

// C03 — the server only ever commits complete messages; IsDelivered tells the truth.

type c03Case struct {
	Msgs       []gen.MsgSpec              `json:"msgs"`
	Steps      map[string]refsmtp.Outcome `json:"steps,omitempty"`
	DropData   bool                       `json:"drop_data,omitempty"`
	DropInData int                        `json:"drop_in_data,omitempty"`
	DataTxn    int                        `json:"data_txn,omitempty"`
	DeleteFile int                        `json:"delete_file,omitempty"` // 1-based message index whose on-disk files vanish before Send (0 = none)
	// Unsignable: 1-based index of a message that is S/MIME-"signed" with a key type the signer refuses
	// at render time (Ed25519): its rendering fails before the first byte, after DATA was accepted.
	Unsignable  int  `json:"unsignable,omitempty"`
	DialAndSend bool `json:"dial_and_send"`
	// NilBefore > 0: the slice handed to Send has a nil entry in front of message number NilBefore.
	NilBefore int `json:"nil_before,omitempty"`
	// Retry: after the call, the caller sends every message that was not delivered once more (faults
	// gone, a fault-free server): what is accepted then is again a complete rendering.
	Retry bool `json:"retry,omitempty"`
	// CancelInData > 0 (DialAndSend only): the context the caller gave to DialAndSendWithContext is
	// cancelled the moment the server has answered the DATA command of that message with 354. Whatever
	// the client makes of it, the server never commits a fragment.
	CancelInData int `json:"cancel_in_data,omitempty"`
}

// normDATA models what transmitting content through DATA does to it, byte for byte the way
// net/textproto's dot-writer works (dot-stuffing aside, which the server undoes): a LF that does not
// directly follow a CR gets a CR in front of it, and at the end the content is completed to end in
// CRLF ("\r\n" appended after ordinary data, "\n" after a lone CR, nothing after a line end).
func normDATA(b []byte) []byte {
	const (
		beginLine = iota
		data
		cr
	)
	state := beginLine
	out := make([]byte, 0, len(b)+2)
	for _, c := range b {
		switch state {
		case beginLine, data:
			state = data
			if c == '\r' {
				state = cr
			}
			if c == '\n' {
				out = append(out, '\r')
				state = beginLine
			}
		case cr:
			state = data
			if c == '\n' {
				state = beginLine
			}
		}
		out = append(out, c)
	}
	switch state {
	case data:
		out = append(out, '\r', '\n')
	case cr:
		out = append(out, '\n')
	}
	return out
}

func specHasFault(s *gen.MsgSpec) bool {
	for _, p := range s.Parts {
		if p.Prod.Fail {
			return true
		}
	}
	for _, f := range append(append([]gen.FileSpec{}, s.Embeds...), s.Attachments...) {
		if f.Prod.Fail {
			return true
		}
	}
	return false
}

func c03Run(c c03Case) []*core.Violation {
	rec := core.Rec("C03")
	caps := []string{"8BITMIME", "ENHANCEDSTATUSCODES"}
	srv := refsmtp.NewServer(refsmtp.Script{Caps: caps, Steps: c.Steps, DropData: c.DropData, DropInData: c.DropInData, DataTxn: c.DataTxn, NoGreetProbe: true})
	d := &refsmtp.Dialer{Srv: srv}
	cfg := smtpCfg{TLS: "none"}
	cl, err := mail.NewClient(refHost, cfg.options(d)...)
	if err != nil {
		return []*core.Violation{core.V("HARNESS-newclient", "%v", err)}
	}
	var builts []*gen.Built
	var msgs []*mail.Msg
	var refs [][]byte
	for i := range c.Msgs {
		spec := c.Msgs[i]
		spec.From = fmt.Sprintf("m%d@sender.verif.example", i+1)
		spec.To = []string{fmt.Sprintf("r%d@rcpt.verif.example", i+1)}
		spec.FixedDate = false
		b, err := gen.Build(&spec, env)
		if err != nil {
			rec.Skip()
			return nil
		}
		// reference render before the send (faults are armed only during the send)
		var buf bytes.Buffer
		if _, err := b.Msg.WriteTo(&buf); err != nil {
			return []*core.Violation{core.V("HARNESS-reference-render", "message %d: %v", i+1, err)}
		}
		refs = append(refs, buf.Bytes())
		if c.Unsignable == i+1 {
			pub, priv, _ := ed25519.GenerateKey(rand.Reader)
			_ = pub
			chain := signingChain("ecdsa", false)
			if err := b.Msg.SignWithKeypair(priv, chain.Leaf, nil); err != nil {
				rec.Skip()
				return nil
			}
		}
		builts = append(builts, b)
		msgs = append(msgs, b.Msg)
	}
	renderFails := make([]bool, len(c.Msgs))
	for i, b := range builts {
		*b.Armed = true
		if specHasFault(&c.Msgs[i]) {
			renderFails[i] = true
		}
		if c.Unsignable == i+1 {
			renderFails[i] = true
		}
		if c.DeleteFile == i+1 && len(b.FilePaths)+len(b.FSMaps) > 0 {
			b.RemoveFiles()
			renderFails[i] = true
		}
	}
	var sendErr, dialErr error
	ctx := context.Background()
	if c.CancelInData > 0 && c.DialAndSend {
		var cancel context.CancelFunc
		ctx, cancel = context.WithCancel(ctx)
		defer cancel()
		srv.DataHook = func(txn int) {
			if txn == c.CancelInData {
				cancel()
			}
		}
	}
	// the list handed to Send may carry nil entries (a caller who builds the batch from a slice with gaps):
	// they are skipped, everything else is as if they were not there
	sendList := msgs
	if c.NilBefore > 0 {
		sendList = nil
		for i, m := range msgs {
			if i+1 == c.NilBefore {
				sendList = append(sendList, nil)
			}
			sendList = append(sendList, m)
		}
		rec.Class("batch-with-a-nil-entry")
	}
	res := watchdog(20*time.Second, d, func() error {
		if c.DialAndSend {
			sendErr = cl.DialAndSendWithContext(ctx, sendList...)
			return nil
		}
		if dialErr = cl.DialWithContext(context.Background()); dialErr != nil {
			return nil
		}
		sendErr = cl.Send(sendList...)
		_ = cl.Close()
		return nil
	})
	d.Shutdown()
	if res.Panic != nil {
		return []*core.Violation{core.V("panic", "client panicked: %v", res.Panic)}
	}
	if res.TimedOut {
		rec.AddExtra("inconclusive_watchdog", 1)
		return nil
	}
	var vs []*core.Violation
	committed := make([]int, len(c.Msgs))
	acked := make([]bool, len(c.Msgs))
	reachedData := false
	var transcript string
	for _, s := range d.Sessions {
		transcript += s.Transcript(60)
		for _, t := range s.Txns {
			if t.DataOK {
				reachedData = true
			}
			if !t.Committed {
				continue
			}
			var idx int
			if _, err := fmt.Sscanf(t.From, "m%d@sender.verif.example", &idx); err != nil || idx < 1 || idx > len(c.Msgs) {
				vs = append(vs, core.V("commit-foreign", "server committed a message with sender %q that is not in the batch", t.From))
				continue
			}
			committed[idx-1]++
			acked[idx-1] = true
			want := normDATA(refs[idx-1])
			if !bytes.Equal(t.Payload, want) {
				kind := "commit-differs"
				if len(t.Payload) < len(want) && bytes.HasPrefix(want, bytes.TrimSuffix(t.Payload, []byte("\r\n"))) {
					kind = "commit-truncated"
				}
				k := 0
				for k < len(want) && k < len(t.Payload) && want[k] == t.Payload[k] {
					k++
				}
				vs = append(vs, core.V(kind, "server committed %d bytes for message %d, its complete rendering has %d bytes (first difference at %d; render failed=%v)\n--- transcript:\n%s",
					len(t.Payload), idx, len(want), k, renderFails[idx-1], transcript))
			}
		}
	}
	for i := range c.Msgs {
		if committed[i] > 1 {
			vs = append(vs, core.V("commit-twice", "message %d was committed %d times in one call", i+1, committed[i]))
		}
		if msgs[i].IsDelivered() != acked[i] {
			vs = append(vs, core.V("isdelivered-wrong", "message %d: IsDelivered()=%v but the server acknowledged end-of-data with 2yz: %v\n--- transcript:\n%s", i+1, msgs[i].IsDelivered(), acked[i], transcript))
		}
		if renderFails[i] {
			if committed[i] > 0 {
				vs = append(vs, core.V("commit-of-failed-render", "message %d failed to render but was committed", i+1))
			}
			if dialErr == nil && !msgs[i].HasSendError() && len(d.Sessions) > 0 && sessionReached(d.Sessions, i+1) {
				vs = append(vs, core.V("failed-render-not-reported", "message %d failed to render but HasSendError() is false (send error: %v)", i+1, sendErr))
			}
		}
	}
	if c.Retry && len(vs) == 0 {
		vs = append(vs, c03Retry(c, cl, d, builts, msgs, refs)...)
	}
	// evidence
	faults := 0
	var keys []string
	for k, o := range c.Steps {
		if o.Kind != "ok" {
			faults++
			keys = append(keys, k+"="+o.Kind+fmt.Sprint(o.Code/100))
		}
	}
	sort.Strings(keys)
	nRenderFaults := 0
	for _, f := range renderFails {
		if f {
			nRenderFaults++
		}
	}
	if c.DropData {
		faults++
		keys = append(keys, fmt.Sprintf("dropdata@%d", c.DropInData/100))
	}
	if c.CancelInData > 0 {
		faults++
		keys = append(keys, fmt.Sprintf("cancel@data#%d", c.CancelInData))
	}
	if (faults > 0 || nRenderFaults > 0) && reachedData {
		var shapes []string
		for i := range c.Msgs {
			shapes = append(shapes, fmt.Sprintf("p%d/e%d/a%d/f%v", len(c.Msgs[i].Parts), len(c.Msgs[i].Embeds), len(c.Msgs[i].Attachments), renderFails[i]))
		}
		rec.NonTrivial(core.Join(strings.Join(shapes, ";"), strings.Join(keys, ","), c.DialAndSend, c.DeleteFile, c.Unsignable, c.CancelInData))
		rec.Sample(fmt.Sprintf("%d/%d", faults, nRenderFaults), map[string]interface{}{"msgs": shapes, "reply_faults": keys, "render_faults": nRenderFaults, "commits": committed, "dial_and_send": c.DialAndSend})
	}
	rec.Class(fmt.Sprintf("replyfaults:%d", faults))
	rec.Class(fmt.Sprintf("renderfaults:%d", nRenderFaults))
	return vs
}

// c03Retry is the second act of a history: the faults are gone, the caller hands every message that
// was not delivered to DialAndSend again, against a server that accepts everything.
func c03Retry(c c03Case, cl *mail.Client, d *refsmtp.Dialer, builts []*gen.Built, msgs []*mail.Msg, refs [][]byte) []*core.Violation {
	rec := core.Rec("C03")
	var again []*mail.Msg
	idxOf := map[string]int{}
	for i, m := range msgs {
		*builts[i].Armed = false
		sticky := c.DeleteFile == i+1 || c.Unsignable == i+1
		for _, f := range append(append([]gen.FileSpec{}, c.Msgs[i].Embeds...), c.Msgs[i].Attachments...) {
			if f.Prod.Fail && f.Prod.AtSeek {
				sticky = true
			}
		}
		if m.IsDelivered() || sticky {
			continue
		}
		again = append(again, m)
		idxOf[fmt.Sprintf("m%d@sender.verif.example", i+1)] = i
	}
	if len(again) == 0 {
		return nil
	}
	// the SAME Client (whatever state the failed call left in it) now reaches a server that accepts
	// everything
	d.Srv = refsmtp.NewServer(refsmtp.Script{Caps: []string{"8BITMIME", "ENHANCEDSTATUSCODES"}, NoGreetProbe: true})
	firstSession := len(d.Sessions)
	var sendErr error
	res := watchdog(20*time.Second, d, func() error {
		sendErr = cl.DialAndSendWithContext(context.Background(), again...)
		return nil
	})
	d.Shutdown()
	if res.Panic != nil {
		return []*core.Violation{core.V("panic", "client panicked in the retry: %v", res.Panic)}
	}
	if res.TimedOut {
		// the first call returned, the server answers at once: a retry that does not return is the
		// Client's doing
		return []*core.Violation{core.V("retry-never-returned", "DialAndSend of the %d undelivered message(s) on the same Client had not returned after 20 s (first call: dial_and_send=%v)", len(again), c.DialAndSend)}
	}
	rec.AddExtra("retried_messages", len(again))
	var vs []*core.Violation
	committed := map[int]int{}
	for _, s := range d.Sessions[firstSession:] {
		for _, t := range s.Txns {
			if !t.Committed {
				continue
			}
			i, ok := idxOf[t.From]
			if !ok {
				vs = append(vs, core.V("commit-foreign", "retry: server committed a message with sender %q that was not handed to the retry", t.From))
				continue
			}
			committed[i]++
			if want := normDATA(refs[i]); !bytes.Equal(t.Payload, want) {
				k := 0
				for k < len(want) && k < len(t.Payload) && want[k] == t.Payload[k] {
					k++
				}
				vs = append(vs, core.V("retry-commit-differs", "retry after a failed first call: server committed %d bytes for message %d, its complete rendering has %d bytes (first difference at %d)", len(t.Payload), i+1, len(want), k))
			}
		}
	}
	for _, i := range idxOf {
		if committed[i] > 1 {
			vs = append(vs, core.V("commit-twice", "retry: message %d was committed %d times in one call", i+1, committed[i]))
		}
		if msgs[i].IsDelivered() != (committed[i] > 0) {
			vs = append(vs, core.V("isdelivered-wrong", "retry: message %d: IsDelivered()=%v, committed %d times (send error %v)", i+1, msgs[i].IsDelivered(), committed[i], sendErr))
		}
	}
	return vs
}

// sessionReached reports whether message idx got as far as an accepted DATA command.
func sessionReached(ss []*refsmtp.Session, idx int) bool {
	for _, s := range ss {
		for _, t := range s.Txns {
			var k int
			if _, err := fmt.Sscanf(t.From, "m%d@sender.verif.example", &k); err == nil && k == idx && t.DataOK {
				return true
			}
		}
	}
	return false
}

func c03Gen(t *rapid.T) c03Case {
	o := gen.GenOpts{
		Encodings: []string{"quoted-printable", "base64", "8bit"}, MaxParts: 2, MaxEmbeds: 1, MaxAttach: 2, AllowNoBody: true,
		PartEncs: []string{"", "quoted-printable", "base64"}, FileEncs: []string{"", "base64"}, CRLFOnly: false, TextOnlyQP: true,
	}
	c := c03Case{DialAndSend: rapid.Bool().Draw(t, "dialandsend"), Retry: rapid.Bool().Draw(t, "retry")}
	n := rapid.IntRange(1, 4).Draw(t, "nmsgs")
	if rapid.IntRange(0, 5).Draw(t, "nilentry") == 0 {
		c.NilBefore = rapid.IntRange(1, n).Draw(t, "nilbefore")
	}
	for i := 0; i < n; i++ {
		spec := gen.Program(t, o)
		// 8bit parts travel unencoded: keep CRLF line breaks so that only the final-CRLF normalisation applies
		for j := range spec.Parts {
			eff := spec.Parts[j].Enc
			if eff == "" {
				eff = spec.Encoding
			}
			if eff == "8bit" {
				spec.Parts[j].Content = gen.TextContent(t, "c8", false, false)
			}
		}
		// render fault: one producer of this message fails during the send
		if rapid.IntRange(0, 3).Draw(t, "renderfault") == 0 {
			nl := len(spec.Parts) + len(spec.Embeds) + len(spec.Attachments)
			idx := rapid.IntRange(0, nl-1).Draw(t, "failleaf")
			var p *gen.Producer
			var content []byte
			switch {
			case idx < len(spec.Parts):
				p, content = &spec.Parts[idx].Prod, spec.Parts[idx].Content
			case idx < len(spec.Parts)+len(spec.Embeds):
				p, content = &spec.Embeds[idx-len(spec.Parts)].Prod, spec.Embeds[idx-len(spec.Parts)].Content
			default:
				k := idx - len(spec.Parts) - len(spec.Embeds)
				p, content = &spec.Attachments[k].Prod, spec.Attachments[k].Content
			}
			p.Fail, p.WhenArmed = true, true
			switch rapid.IntRange(0, 2).Draw(t, "failpos") {
			case 0:
				p.FailAfter = 0
			case 1:
				p.FailAfter = len(content)
			default:
				p.FailAfter = rapid.IntRange(0, len(content)).Draw(t, "failafter")
			}
			gen.FaultFlavour(t, spec, idx, true)
		}
		c.Msgs = append(c.Msgs, *spec)
	}
	if rapid.IntRange(0, 7).Draw(t, "deletefile") == 0 {
		c.DeleteFile = rapid.IntRange(1, n).Draw(t, "deletewhich")
	}
	if rapid.IntRange(0, 7).Draw(t, "unsignable") == 0 {
		c.Unsignable = rapid.IntRange(1, n).Draw(t, "unsignablewhich")
	}
	if c.DialAndSend && rapid.IntRange(0, 5).Draw(t, "cancelindata") == 0 {
		c.CancelInData = rapid.IntRange(1, n).Draw(t, "cancelwhich")
	}
	if rapid.IntRange(0, 3).Draw(t, "dropdata") == 0 {
		c.DropData = true
		c.DataTxn = rapid.IntRange(1, n).Draw(t, "droptxn")
		c.DropInData = rapid.SampledFrom([]int{0, 1, 50, 200, 400, 600, 900, 1500, 100000}).Draw(t, "dropat")
	}
	var steps []string
	steps = append(steps, "noop#1", "noop#2", "rset#1", "rset#2", "quit")
	for m := 1; m <= n; m++ {
		steps = append(steps, fmt.Sprintf("mail#%d", m), fmt.Sprintf("rcpt#%d.1", m), fmt.Sprintf("data#%d", m), fmt.Sprintf("eod#%d", m), fmt.Sprintf("eod#%d", m))
	}
	nf := rapid.SampledFrom([]int{0, 0, 1, 1, 2, 3}).Draw(t, "nfaults")
	c.Steps = map[string]refsmtp.Outcome{}
	for i := 0; i < nf; i++ {
		c.Steps[rapid.SampledFrom(steps).Draw(t, "faultstep")] = c04Outcome(t, "fault")
	}
	return c
}

func TestC03(t *testing.T) {
	rec := core.Rec("C03")
	rec.Rule = "batches of 1..4 generated message programs (0..2 parts, 0..1 embeds, 0..2 attachments; QP/base64/8bit) sent through the real Client (Send on a dialled client, or DialAndSend) to the reference server over in-memory connections, with " +
		"render faults (one body/alternative/embed/attachment producer of a message failing before its first byte, after a prefix or after its last byte, armed only during the send; on-disk attachment files deleted between AttachFile and Send; a message given an S/MIME key the signer refuses at render time, so that rendering fails before the first byte), " +
		"the caller's context cancelled the moment a DATA command was answered 354 (DialAndSendWithContext), transport faults (connection dropped after k content bytes of a chosen DATA phase) and 0..3 non-ok replies (4yz, 5yz, drop, 421+close) at MAIL/RCPT/DATA/end-of-data/RSET/NOOP/QUIT positions. " +
		"TestC03Enum enumerates, for batches of 1, 2 and 3 messages (plain + html + attachment each): every step id x {4yz, 5yz, drop}; every producer x {before first byte, mid-content, after last byte}; for the batch of 3 every render fault of the middle message combined with every reply fault; and a connection drop at every 40th content byte. " +
		"One history in two has a second act: every message that was not delivered is handed to DialAndSend again on the SAME Client once the faults are gone (a server that accepts everything); what is committed then is again the complete rendering, IsDelivered follows, and the call returns. Oracle from the server's commit log: every payload accepted at end-of-data is byte-identical to the harness' own WriteTo rendering of that Msg taken before the send (plus the final CRLF inherent to DATA), never a prefix; each Msg is committed at most once per call; IsDelivered() <=> a 2yz end-of-data reply for that Msg; a Msg whose rendering failed has a send error and no commit. " +
		"Non-trivial: >= 1 non-ok reply or injected fault and at least one message reached an accepted DATA command. Distinct by (batch shapes, reply faults, drop position class, call kind)."
	rec.Assumptions = []string{"8bit parts are generated with CRLF line breaks only (the dot-writer turns bare LF into CRLF in transit)", "a watchdog time-out marks a history inconclusive (counted)"}
	core.Prop[c03Case]{ID: "C03", Test: "TestC03", Gen: c03Gen, Run: c03Run}.Check(t)
}

// TestC03Enum: for the batches (1), (2) and (3 with the middle one failing), every producer x
// {before first byte, mid-content, after last byte} and every step id of the fault-free dialogue x
// {4yz, 5yz, drop}, singly, and every render fault combined with every reply fault for the batch of 3.
func TestC03Enum(t *testing.T) {
	if core.ReplayArg != "" {
		t.Skip()
	}
	p := core.Prop[c03Case]{ID: "C03", Test: "TestC03", Run: c03Run}
	mk := func() gen.MsgSpec {
		return gen.MsgSpec{Encoding: "quoted-printable",
			Parts:       []gen.PartSpec{{CType: "text/plain", Content: []byte("plain body line one\r\nline two\r\n"), Via: "writer"}, {CType: "text/html", Content: []byte("<p>html body</p>\r\n"), Via: "writer"}},
			Attachments: []gen.FileSpec{{Name: "file.bin", Content: bytes.Repeat([]byte("0123456789"), 20), Source: "writer"}}}
	}
	withFault := func(spec gen.MsgSpec, leaf, pos int) gen.MsgSpec {
		// deep copy of the slices that are modified
		spec.Parts = append([]gen.PartSpec{}, spec.Parts...)
		spec.Attachments = append([]gen.FileSpec{}, spec.Attachments...)
		var pr *gen.Producer
		var n int
		if leaf < 2 {
			pr, n = &spec.Parts[leaf].Prod, len(spec.Parts[leaf].Content)
		} else {
			pr, n = &spec.Attachments[0].Prod, len(spec.Attachments[0].Content)
		}
		pr.Fail, pr.WhenArmed = true, true
		pr.FailAfter = []int{0, n / 2, n}[pos]
		return spec
	}
	outcomes := []refsmtp.Outcome{{Kind: "reply", Code: 451, Text: "4.3.0 later"}, {Kind: "reply", Code: 554, Text: "5.5.0 no"}, {Kind: "drop"}}
	idx := 0
	run := func(c c03Case) {
		idx++
		if idx%core.Shards != core.Shard {
			return
		}
		core.Rec("C03").AddExtra("enumerated_fault_cases", 1)
		if v := p.RunOne(c); v != nil {
			t.Fatalf("VIOLATION-DETAIL property=C03 %s", v)
		}
	}
	for _, n := range []int{1, 2, 3} {
		for _, das := range []bool{false, true} {
			var msgs []gen.MsgSpec
			for i := 0; i < n; i++ {
				msgs = append(msgs, mk())
			}
			// step ids of the fault-free dialogue
			var steps []string
			steps = append(steps, "noop#1")
			for m := 1; m <= n; m++ {
				steps = append(steps, fmt.Sprintf("mail#%d", m), fmt.Sprintf("rcpt#%d.1", m), fmt.Sprintf("data#%d", m), fmt.Sprintf("eod#%d", m), fmt.Sprintf("noop#%d", m+1), fmt.Sprintf("rset#%d", m))
			}
			steps = append(steps, "quit")
			for _, st := range steps {
				for _, o := range outcomes {
					run(c03Case{Msgs: msgs, Steps: map[string]refsmtp.Outcome{st: o}, DialAndSend: das})
				}
			}
			for mi := 0; mi < n; mi++ {
				for leaf := 0; leaf < 3; leaf++ {
					for pos := 0; pos < 3; pos++ {
						fm := append([]gen.MsgSpec{}, msgs...)
						fm[mi] = withFault(fm[mi], leaf, pos)
						run(c03Case{Msgs: fm, DialAndSend: das})
						if n == 3 && mi == 1 {
							for _, st := range steps {
								for _, o := range outcomes {
									run(c03Case{Msgs: fm, Steps: map[string]refsmtp.Outcome{st: o}, DialAndSend: das})
								}
							}
						}
					}
				}
			}
			for mi := 0; mi < n; mi++ {
				run(c03Case{Msgs: msgs, Unsignable: mi + 1, DialAndSend: das})
			}
			// transport drops inside DATA at every 40th byte of the first message
			for k := 0; k < 900; k += 40 {
				run(c03Case{Msgs: msgs, DropData: true, DropInData: k, DataTxn: 1, DialAndSend: das})
			}
		}
	}
}
