package props

import (
	"context"
	"crypto/tls"
	"fmt"
	"strings"
	"testing"
	"time"
	"unicode"

	mail "github.com/wneessen/go-mail"
	"pgregory.net/rapid"

	"verif/harness/core"
	"verif/harness/gen"
	"verif/harness/refsmtp"
)

// C05 — envelope addresses and command lines cannot be smuggled.

type c05Addr struct {
	Local   string `json:"local"`
	Domain  string `json:"domain"`
	Display string `json:"display,omitempty"`
	Setter  string `json:"setter"` // how the address is handed to the Msg
}

type c05Case struct {
	Cfg   smtpCfg   `json:"cfg"`
	Caps  []string  `json:"caps"`
	From  c05Addr   `json:"from"`
	Env   *c05Addr  `json:"env,omitempty"`
	Rcpts []c05Addr `json:"rcpts"`
}

func isDotAtom(s string) bool {
	if s == "" || s[0] == '.' || s[len(s)-1] == '.' || strings.Contains(s, "..") {
		return false
	}
	// Unicode white space and invisible runes are UTF8-non-ascii by the letter of RFC 6532, but a caller
	// who means them puts them inside a quoted-string (the *FromString setters trim white space around
	// the list elements, as documented for a comma separated list)
	for _, r := range s {
		if r >= 0x80 && (unicode.IsSpace(r) || !unicode.IsPrint(r)) {
			return false
		}
	}
	for i := 0; i < len(s); i++ {
		c := s[i]
		switch {
		case c >= 'a' && c <= 'z', c >= 'A' && c <= 'Z', c >= '0' && c <= '9', c >= 0x80, c == '.':
		case strings.IndexByte("!#$%&'*+-/=?^_`{|}~", c) >= 0:
		default:
			return false
		}
	}
	return true
}

// render produces RFC 5322 input text for the address (the generator, not net/mail, decides the form).
func (a c05Addr) render() string {
	local := a.Local
	if !isDotAtom(local) {
		local = quoteName(local)
	}
	spec := local + "@" + a.Domain
	if a.Display != "" {
		return quoteName(a.Display) + " <" + spec + ">"
	}
	return spec
}

func c05Auth(mech string, initial []byte, io *refsmtp.AuthIO, _ *tls.ConnectionState) string {
	switch {
	case mech == "PLAIN" || mech == "LOGIN":
		return acceptAnyAuth(mech, initial, io, nil)
	case mech == "XOAUTH2":
		return "235 2.7.0 ok"
	case mech == "CRAM-MD5":
		if _, err := io.Challenge([]byte("<1896.697170952@ref.verif.example>")); err != nil {
			return "501 5.5.2 cancelled"
		}
		return "235 2.7.0 ok"
	case strings.HasPrefix(mech, "SCRAM-"):
		if _, err := io.Challenge([]byte("r=this-is-not-your-nonce,s=c2FsdA==,i=4096")); err != nil {
			return "501 5.5.2 cancelled"
		}
		return "535 5.7.8 no"
	}
	return "504 5.5.4 unsupported"
}

func c05Run(c c05Case) []*core.Violation {
	rec := core.Rec("C05")
	srv := refsmtp.NewServer(refsmtp.Script{Caps: c.Caps, NoGreetProbe: true})
	srv.Auth = c05Auth
	d := &refsmtp.Dialer{Srv: srv}
	cl, err := mail.NewClient(refHost, c.Cfg.options(d)...)
	if err != nil {
		// the option itself refused the value: nothing can be sent
		rec.Class("newclient-refused")
		return nil
	}
	m := mail.NewMsg()
	type exp struct{ local, domain string }
	var wantFrom *exp
	var wantRcpts []exp
	setErrs := 0
	set := func(a c05Addr, header string) bool {
		text := a.render()
		var err error
		switch header + "/" + a.Setter {
		case "from/plain":
			err = m.From(text)
		case "from/format":
			err = m.FromFormat(a.Display, a.render2())
		case "env/plain":
			err = m.EnvelopeFrom(text)
		case "env/format":
			err = m.EnvelopeFromFormat(a.Display, a.render2())
		case "to/plain":
			err = m.AddTo(text)
		case "to/format":
			err = m.AddToFormat(a.Display, a.render2())
		case "to/fromstring":
			// ToFromString splits on commas itself: only usable when the text has none
			if strings.Contains(text, ",") {
				err = m.AddTo(text)
			} else {
				cur := m.GetToString()
				err = m.ToFromString(strings.Join(append(cur, text), ", "))
			}
		case "cc/plain":
			err = m.AddCc(text)
		case "cc/format":
			err = m.AddCcFormat(a.Display, a.render2())
		case "bcc/plain":
			err = m.AddBcc(text)
		case "bcc/format":
			err = m.AddBccFormat(a.Display, a.render2())
		default:
			panic("HARNESS-ERROR: bad setter " + header + "/" + a.Setter)
		}
		if err != nil {
			setErrs++
			return false
		}
		return true
	}
	if set(c.From, "from") {
		wantFrom = &exp{c.From.Local, c.From.Domain}
	}
	if c.Env != nil && set(*c.Env, "env") {
		wantFrom = &exp{c.Env.Local, c.Env.Domain}
	}
	// To, then Cc, then Bcc (the order of RCPT commands)
	var to, cc, bcc []exp
	for _, r := range c.Rcpts {
		hdr := strings.SplitN(r.Setter, ":", 2)
		a := r
		a.Setter = hdr[1]
		if set(a, hdr[0]) {
			switch hdr[0] {
			case "to":
				to = append(to, exp{r.Local, r.Domain})
			case "cc":
				cc = append(cc, exp{r.Local, r.Domain})
			default:
				bcc = append(bcc, exp{r.Local, r.Domain})
			}
		}
	}
	wantRcpts = append(append(append(wantRcpts, to...), cc...), bcc...)
	m.Subject("c05")
	m.SetBodyString(mail.TypeTextPlain, "body\r\n")
	var sendErr error
	res := watchdog(20*time.Second, d, func() error {
		sendErr = cl.DialAndSendWithContext(context.Background(), m)
		return nil
	})
	d.Shutdown()
	if res.Panic != nil {
		return []*core.Violation{core.V("panic", "client panicked: %v", res.Panic)}
	}
	if res.TimedOut {
		rec.AddExtra("inconclusive_watchdog", 1)
		return nil
	}
	var vs []*core.Violation
	if len(d.Sessions) == 0 {
		return nil
	}
	s := d.Sessions[0]
	tr := s.Transcript(40)
	for _, v := range s.Violations {
		switch v.Key {
		case "auth-cancel-after-final-reply":
			continue // C04's known finding, not a smuggling issue
		case "helo-domain":
			// a single token that is not a syntactically valid domain: the caller's own name, it adds
			// no argument and no line break (C05 is about smuggling, not about validating domains)
			rec.AddExtra("helo_single_token_not_a_domain", 1)
			continue
		}
		vs = append(vs, core.V("malformed-"+v.Key, "%s (send error: %v)\n--- transcript:\n%s", v.Msg, sendErr, tr))
	}
	ret, notify := c.Cfg.expectedDSN()
	dsnAdv := containsFold(c.Caps, "DSN")
	for _, t := range s.Txns {
		// parameters exactly as configured
		for _, p := range t.FromParams {
			k, v, _ := strings.Cut(p, "=")
			switch strings.ToUpper(k) {
			case "BODY", "SMTPUTF8":
			case "RET":
				if !dsnAdv || !strings.EqualFold(v, strings.TrimSpace(ret)) || ret == "" {
					vs = append(vs, core.V("extra-param", "MAIL parameter %q (configured RET=%q, DSN advertised=%v)\n%s", p, ret, dsnAdv, tr))
				}
			default:
				vs = append(vs, core.V("extra-param", "MAIL carries a parameter the caller never configured: %q\n%s", p, tr))
			}
		}
		for _, r := range t.Rcpts {
			for _, p := range r.Params {
				k, v, _ := strings.Cut(p, "=")
				if !strings.EqualFold(k, "NOTIFY") || !dsnAdv || notify == "" || !strings.EqualFold(v, notify) {
					vs = append(vs, core.V("extra-param", "RCPT carries parameter %q (configured NOTIFY=%q, DSN advertised=%v)\n%s", p, notify, dsnAdv, tr))
				}
			}
		}
		// paths denote exactly the mailboxes the caller set
		if wantFrom == nil {
			vs = append(vs, core.V("mail-without-sender", "MAIL FROM:<%s> although no sender was accepted by the setters", t.From))
		} else {
			l, dm, ok := refsmtp.SplitPath(t.From)
			if !ok || l != wantFrom.local || !strings.EqualFold(dm, wantFrom.domain) {
				vs = append(vs, core.V("wrong-reverse-path", "reverse-path <%s> denotes local %q domain %q, the caller set local %q domain %q\n%s", t.From, l, dm, wantFrom.local, wantFrom.domain, tr))
			}
		}
		if t.DataCmd {
			if len(t.Rcpts) != len(wantRcpts) {
				vs = append(vs, core.V("wrong-forward-paths", "%d RCPT commands before DATA, the message has %d recipients\n%s", len(t.Rcpts), len(wantRcpts), tr))
			}
		}
		// every forward-path that was sent denotes, in order, one of the recipients the caller set
		// (all of them when the message went as far as DATA; a subsequence when a recipient was
		// refused locally and the transaction was abandoned)
		j := 0
		for i, r := range t.Rcpts {
			l, dm, ok := refsmtp.SplitPath(r.Path)
			found := false
			for j < len(wantRcpts) {
				w := wantRcpts[j]
				j++
				if ok && l == w.local && strings.EqualFold(dm, w.domain) {
					found = true
					break
				}
				if t.DataCmd {
					break
				}
			}
			if !found {
				vs = append(vs, core.V("wrong-forward-path", "forward-path %d <%s> denotes local %q domain %q, which is not the next recipient the caller set (%v)\n%s", i, r.Path, l, dm, wantRcpts, tr))
				break
			}
		}
	}
	// evidence
	nt := false
	all := append([]c05Addr{c.From}, c.Rcpts...)
	if c.Env != nil {
		all = append(all, *c.Env)
	}
	var kinds []string
	for _, a := range all {
		if !isDotAtom(a.Local) {
			nt = true
			rec.Class("local:quoted")
		} else {
			rec.Class("local:dot-atom")
		}
		kinds = append(kinds, fmt.Sprintf("%v/%s", isDotAtom(a.Local), a.Setter))
	}
	for _, v := range []string{c.Cfg.HELO, c.Cfg.User, c.Cfg.Pass} {
		for i := 0; i < len(v); i++ {
			if !(v[i] >= 'a' && v[i] <= 'z' || v[i] >= 'A' && v[i] <= 'Z' || v[i] >= '0' && v[i] <= '9' || v[i] == '.' || v[i] == '-') {
				nt = true
			}
		}
	}
	rec.Class("auth:" + c.Cfg.Auth)
	if len(s.Txns) > 0 {
		rec.Class("reached-mail")
	}
	if nt {
		rec.NonTrivial(core.Join(strings.Join(kinds, ","), core.Hash(c.Cfg.HELO), c.Cfg.Auth, core.Hash(c.Cfg.User+"\x00"+c.Cfg.Pass), c.Cfg.DSN, c.Cfg.DSNRet, strings.Join(c.Cfg.DSNNotify, ","), core.Hash(fmt.Sprint(all))))
		rec.Sample(fmt.Sprintf("%s/%d", c.Cfg.Auth, len(all)), map[string]interface{}{"from": c.From.render(), "rcpts": len(c.Rcpts), "helo": c.Cfg.HELO, "auth": c.Cfg.Auth, "user": c.Cfg.User, "setter_errors": setErrs, "mail_commands": len(s.Txns)})
	}
	return vs
}

// render2 is the addr-spec handed to the *Format setters.
func (a c05Addr) render2() string {
	local := a.Local
	if !isDotAtom(local) {
		local = quoteName(local)
	}
	return local + "@" + a.Domain
}

var c05LocalChars = []string{"%", "%s", "%%", "%d", "%!", " ", "<", ">", "@", ",", ";", ":", "\\", "\"", "a", "b", "x", ".", "é", "日", "NOTIFY=NEVER", "ORCPT=rfc822;y", "> ", " SIZE=1", "(", ")", "[", "]", "\t",
	// runes that Go's strconv/unicode call non-printable but that are ordinary UTF-8 to SMTP
	"\u00a0", "\u3000", "\u200b", "\ufeff", "\u00ad", "\u2028"}

func c05GenAddr(t *rapid.T, label string, setters []string) c05Addr {
	a := c05Addr{Domain: rapid.SampledFrom([]string{"example.com", "verif.example", "sub.domain.example.org", "xn--mnchen-3ya.example"}).Draw(t, label+"-domain")}
	switch rapid.IntRange(0, 3).Draw(t, label+"-kind") {
	case 0:
		a.Local = rapid.SampledFrom([]string{"user", "first.last", "a", "user+tag", "o'brien", "x_y-z", "üser", "用户", "100%sure", "a%%b", "user%example.org", "%v%d%s", "{curly}", "a|b", "~tilde", "back`tick", "#hash!", "$dollar&amp", "q?mark=eq", "^caret*star"}).Draw(t, label+"-atom")
	default:
		n := rapid.IntRange(1, 6).Draw(t, label+"-n")
		var sb strings.Builder
		for i := 0; i < n; i++ {
			sb.WriteString(rapid.SampledFrom(c05LocalChars).Draw(t, label+"-ch"))
		}
		a.Local = sb.String()
	}
	if rapid.Bool().Draw(t, label+"-hasdisplay") {
		a.Display = rapid.SampledFrom([]string{"Alice", "Bob <b@evil.example>", "x\" <y@z>", "Ünïcode", "a, b"}).Draw(t, label+"-display")
	}
	a.Setter = rapid.SampledFrom(setters).Draw(t, label+"-setter")
	return a
}

func c05Gen(t *rapid.T) c05Case {
	c := c05Case{Cfg: smtpCfg{TLS: "none"}}
	for _, k := range []string{"8BITMIME", "SMTPUTF8", "DSN", "ENHANCEDSTATUSCODES"} {
		if rapid.Bool().Draw(t, "cap-"+k) {
			c.Caps = append(c.Caps, k)
		}
	}
	c.Caps = append(c.Caps, "AUTH PLAIN LOGIN CRAM-MD5 XOAUTH2 SCRAM-SHA-1 SCRAM-SHA-256")
	c.Cfg.HELO = rapid.SampledFrom([]string{"", "", "client.verif.example", "[192.0.2.1]", "foo bar", "foo\tbar", "host\r\nMAIL FROM:<x@y>", "hostname\x00", "münchen.example", strings.Repeat("h", 300), "host name with many spaces ", "-", "a..b"}).Draw(t, "helo")
	if rapid.IntRange(0, 2).Draw(t, "useauth") == 0 {
		c.Cfg.Auth = rapid.SampledFrom([]string{"PLAIN-NOENC", "LOGIN-NOENC", "CRAM-MD5", "XOAUTH2", "SCRAM-SHA-1", "SCRAM-SHA-256"}).Draw(t, "authtype")
		c.Cfg.User = gen05Cred(t, "user")
		c.Cfg.Pass = gen05Cred(t, "pass")
	}
	switch rapid.IntRange(0, 2).Draw(t, "dsn") {
	case 1:
		c.Cfg.DSN = "default"
	case 2:
		c.Cfg.DSN = "custom"
		c.Cfg.DSNRet = rapid.SampledFrom([]string{"", "FULL", "HDRS", "FULL", "HDRS",
			// values a configuration file might hold: to be refused by the option, or sent as exactly FULL/HDRS
			" FULL", "FULL\n", "HDRS ", "full", "HDRS\r\nRSET", "FULL SIZE=1", "\tHDRS"}).Draw(t, "ret")
		c.Cfg.DSNNotify = rapid.SampledFrom([][]string{nil, {"NEVER"}, {"SUCCESS"}, {"FAILURE", "DELAY"}, {"SUCCESS", "FAILURE", "DELAY"}, {"DELAY", "DELAY"},
			// combinations RFC 3461 does not allow (NEVER stands alone): to be refused, never sent
			{"SUCCESS", "NEVER"}, {"NEVER", "FAILURE"}, {"FAILURE", "DELAY", "NEVER"}, {"NEVER", "NEVER"}}).Draw(t, "notify")
		if gen.Excluded("never-never") && len(c.Cfg.DSNNotify) == 2 && c.Cfg.DSNNotify[0] == "NEVER" && c.Cfg.DSNNotify[1] == "NEVER" {
			c.Cfg.DSNNotify = []string{"NEVER"}
		}
		if c.Cfg.DSNRet == "" && len(c.Cfg.DSNNotify) == 0 {
			c.Cfg.DSNRet = "FULL"
		}
	}
	c.From = c05GenAddr(t, "from", []string{"plain", "format"})
	if rapid.IntRange(0, 2).Draw(t, "hasenv") == 0 {
		e := c05GenAddr(t, "env", []string{"plain", "format"})
		c.Env = &e
	}
	n := rapid.IntRange(1, 4).Draw(t, "nrcpt")
	for i := 0; i < n; i++ {
		c.Rcpts = append(c.Rcpts, c05GenAddr(t, "rcpt", []string{"to:plain", "to:format", "to:fromstring", "cc:plain", "cc:format", "bcc:plain", "bcc:format"}))
	}
	return c
}

func gen05Cred(t *rapid.T, label string) string {
	return rapid.SampledFrom([]string{"user", "secret", "user@example.com", "with space", "a,b=c", "new\r\nline", "nul\x00byte", "ünï", "\r\nRCPT TO:<evil@example.com>", strings.Repeat("p", 400), "", "=", "*"}).Draw(t, label)
}

func TestC05(t *testing.T) {
	c05Describe()
	core.Prop[c05Case]{ID: "C05", Test: "TestC05", Gen: c05Gen, Run: c05Run}.Check(t)
}

func c05Describe() {
	rec := core.Rec("C05")
	rec.Rule = "one message sent with DialAndSend to the strict reference server. rapid constructs (display?, local part, domain) triples whose local part is a dot-atom (incl. every atext special such as '%' and printf-like sequences) or a sequence over {'%' '%s' '%%' space < > @ , ; : \\ \" ( ) [ ] TAB, UTF-8, 'NOTIFY=NEVER', 'ORCPT=rfc822;y', '> ', ' SIZE=1'} and renders the RFC 5322 input itself (quoted-string when needed); they go through From/FromFormat/EnvelopeFrom(Format)/AddTo/AddToFormat/ToFromString/AddCc(Format)/AddBcc(Format). " +
		"HELO names from {default, domain, address literal, with blank/TAB/CRLF+command/NUL, UTF-8, 300 characters}; user names and passwords (incl. CRLF + command, NUL, blanks, ',' '=', 400 characters, empty) for PLAIN/LOGIN/CRAM-MD5/XOAUTH2/SCRAM-SHA-1/-256; DSN off/default/custom RET and NOTIFY combinations; capability subsets. " +
		"Oracle: every line outside DATA parses as exactly one RFC 5321 command (own strict parser: Reverse-path/Forward-path with Dot-string or Quoted-string local parts, esmtp-params, one EHLO argument); MAIL/RCPT carry only the configured parameters; the parsed paths (local part un-quoted) equal the mailbox the caller set, in To+Cc+Bcc order; or the value was refused and nothing malformed was sent. " +
		"Non-trivial: a local part that needs quoting, or a HELO name/credential with a character outside [A-Za-z0-9.-]. Distinct by (setter/kind list, HELO, auth, credentials, DSN config, addresses)."
	rec.Rule += " TestC05Direct: the exported smtp.Client API used directly (NewClient, Hello, Verify, SetDSN*Option, Mail, Rcpt) with RAW caller strings - CR, LF, CRLF + command, NUL, TAB, blanks, '<' '>' '\"' and the hostile header strings - as HELO name, VRFY argument, reverse- and forward-paths and DSN option values; every line that reaches the server is one well-formed command, a call that returned nil put exactly its value on the wire (paths: local part un-quoted), a refused hostile value put nothing there. TestC05SendMail: the one-call smtp.SendMail over real TCP with the same raw sender/recipient strings (nothing of a call with a CR/LF carrying address reaches the server)."
	rec.Assumptions = []string{"an address the setters reject is simply absent from the expected envelope", "UTF-8 local parts are accepted by the reference parser regardless of SMTPUTF8 (not part of the statement)",
		"direct smtp API: parameters the program configures although the server does not advertise the extension are the program's own doing (mail.Client, judged by C04, is what guards them)"}
}
