package props

import (
	"fmt"
	"os"
	"testing"

	"verif/harness/core"
	"verif/harness/gen"
)

var env *gen.Env

func TestMain(m *testing.M) {
	var err error
	env, err = gen.NewEnv()
	if err != nil {
		fmt.Fprintf(os.Stderr, "HARNESS-ERROR: %v\n", err)
		os.Exit(3)
	}
	_ = os.RemoveAll("testdata/rapid")
	code := m.Run()
	env.Close()
	core.DumpAll()
	os.Exit(code)
}
