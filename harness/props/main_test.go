package props

import (
	"fmt"
	"os"
	"path/filepath"
	"testing"

	"verif/harness/core"
	"verif/harness/gen"
)

var env *gen.Env

func TestMain(m *testing.M) {
	var err error
	env, err = gen.NewEnv()
	if err != nil {
		fmt.Fprintf(os.Stderr, "HARNESS-ERROR: %v\n", err)
		os.Exit(3)
	}
	// The client's DEFAULT tls.Config (no RootCAs) is what C07 tests: make the harness CA the only
	// system root before any verification happens (Go's Linux root loader honours these variables).
	ca, _ := pki()
	caFile := filepath.Join(env.Dir, "harness-ca.pem")
	_ = os.WriteFile(caFile, ca.PEM(), 0o644)
	_ = os.Mkdir(filepath.Join(env.Dir, "nocerts"), 0o755)
	_ = os.Setenv("SSL_CERT_FILE", caFile)
	_ = os.Setenv("SSL_CERT_DIR", filepath.Join(env.Dir, "nocerts"))
	_ = os.RemoveAll("testdata/rapid")
	code := m.Run()
	env.Close()
	core.DumpAll()
	os.Exit(code)
}
