package props

import (
	"bytes"
	"context"
	"crypto/tls"
	"encoding/base64"
	"encoding/hex"
	"encoding/json"
	"fmt"
	"strings"
	"sync"
	"testing"
	"time"

	mail "github.com/wneessen/go-mail"
	maillog "github.com/wneessen/go-mail/log"
	"github.com/wneessen/go-mail/smtp"
	"pgregory.net/rapid"

	"verif/harness/core"
	"verif/harness/refsasl"
	"verif/harness/refsmtp"
)

// C16 — authentication secrets never reach the debug log.

type c16Case struct {
	Mech    string                     `json:"mech"`
	TLS     string                     `json:"tls"` // none | 1.2 | 1.3
	User    string                     `json:"user"`
	Pass    string                     `json:"pass"`
	Wrong   bool                       `json:"wrong"`           // the server knows another password
	Steps   map[string]refsmtp.Outcome `json:"steps,omitempty"` // faults inside the exchange
	Extra   bool                       `json:"extra,omitempty"` // unexpected extra challenge before the final reply
	Logger  string                     `json:"logger"`          // capture | std | json
	SendMsg bool                       `json:"send_msg"`        // followed by a MAIL/RCPT/DATA transaction
	// Direct: drive the exported smtp.Client API directly (NewClient, SetLogger, SetDebugLog, Auth)
	// instead of mail.Client; NoHello: Auth is the first method that talks to the server.
	Direct  bool `json:"direct,omitempty"`
	NoHello bool `json:"no_hello,omitempty"`
	// Mid (direct mode): what the application does between two steps of the exchange, as another
	// goroutine could at that very point: "close" = Client.Close(), "debugon" = debug logging was off
	// when Auth started and is switched on now.
	Mid string `json:"mid,omitempty"`
	// MidStep: at which challenge (1-based) the action happens.
	MidStep int `json:"mid_step,omitempty"`
	// Prompts (LOGIN): the server's wording of its two prompts, "first|second" ("" = Username:|Password:).
	Prompts string `json:"prompts,omitempty"`
	// CfgVia (mail.Client mode): how logging was configured. "" = the options WithLogger + WithDebugLog;
	// "setters" = Client.SetLogger + Client.SetDebugLog(true) before the dial; "authdata-off" = the Client
	// was created WithLogAuthData() and the application switched it off again with SetLogAuthData(false)
	// before the dial (auth-data logging is then NOT enabled); "setters-after-dial" = no logging during the dial,
	// SetLogger + SetDebugLog(true) on the established connection before the message is sent.
	CfgVia string `json:"cfg_via,omitempty"`
}

// midAuth wraps an smtp.Auth and runs a hook when the first challenge arrives, i.e. between two
// commands of the exchange (the point at which another goroutine gets the client's mutex).
type midAuth struct {
	smtp.Auth
	hook func()
	at   int
	n    int
}

func (m *midAuth) Next(fromServer []byte, more bool) ([]byte, error) {
	if more {
		m.n++
		if m.n == m.at {
			m.hook()
		}
	}
	return m.Auth.Next(fromServer, more)
}

type captureLogger struct {
	mu   sync.Mutex
	recs []maillog.Log
}

func (l *captureLogger) add(r maillog.Log)    { l.mu.Lock(); l.recs = append(l.recs, r); l.mu.Unlock() }
func (l *captureLogger) Debugf(r maillog.Log) { l.add(r) }
func (l *captureLogger) Infof(r maillog.Log)  { l.add(r) }
func (l *captureLogger) Warnf(r maillog.Log)  { l.add(r) }
func (l *captureLogger) Errorf(r maillog.Log) { l.add(r) }

// encodings returns the needles for a secret: raw, hex, and base64 in the three alignments.
func secretNeedles(secret string) map[string]string {
	out := map[string]string{"raw": secret, "hex": hex.EncodeToString([]byte(secret)), "HEX": strings.ToUpper(hex.EncodeToString([]byte(secret)))}
	for k := 0; k < 3; k++ {
		padded := append(bytes.Repeat([]byte{0}, k), []byte(secret)...)
		e := base64.RawStdEncoding.EncodeToString(padded)
		drop := []int{0, 2, 3}[k]
		e = e[drop:]
		if len(padded)%3 != 0 {
			e = e[:len(e)-1]
		}
		out[fmt.Sprintf("base64@%d", k)] = e
	}
	// a secret with a character that loggers escape (%q, JSON): its alphanumeric stretches of 8 or more
	// characters give it away however the odd character is written
	start := -1
	for i := 0; i <= len(secret); i++ {
		alnum := i < len(secret) && (secret[i] >= 'a' && secret[i] <= 'z' || secret[i] >= 'A' && secret[i] <= 'Z' || secret[i] >= '0' && secret[i] <= '9')
		if alnum && start < 0 {
			start = i
		}
		if !alnum && start >= 0 {
			if i-start >= 8 && i-start < len(secret) {
				out[fmt.Sprintf("stretch@%d", start)] = secret[start:i]
			}
			start = -1
		}
	}
	return out
}

func c16Run(c c16Case) []*core.Violation {
	rec := core.Rec("C16")
	serverPass := c.Pass
	if c.Wrong {
		serverPass = c.Pass + "-other"
	}
	acc := refsasl.Account{User: c.User, Pass: serverPass}
	res := &refsasl.Result{}
	wire := strings.TrimSuffix(c.Mech, "-NOENC")
	sp := refsasl.ScramParams{Salt: []byte("c16-salt-value"), Iter: 8, NonceSuffix: "c16SrvNonce"}
	var handler refsmtp.AuthHandler
	switch {
	case wire == "PLAIN":
		handler = refsasl.Plain(acc, res)
	case wire == "LOGIN":
		handler = refsasl.Login(acc, res)
		if p1, p2, ok := strings.Cut(c.Prompts, "|"); ok {
			handler = refsasl.LoginPrompts(acc, res, p1, p2)
		}
	case wire == "CRAM-MD5":
		handler = refsasl.CramMD5(acc, "<4711.1234567@ref.verif.example>", res)
	case wire == "XOAUTH2":
		handler = refsasl.XOAuth2(acc, res)
	case strings.HasPrefix(wire, "SCRAM-SHA-1"):
		sp.Hash, sp.Plus = "SHA-1", strings.HasSuffix(wire, "-PLUS")
		handler = refsasl.Scram(acc, sp, res)
	default:
		sp.Hash, sp.Plus = "SHA-256", strings.HasSuffix(wire, "-PLUS")
		handler = refsasl.Scram(acc, sp, res)
	}
	if c.Extra {
		inner := handler
		handler = func(mech string, initial []byte, io *refsmtp.AuthIO, st *tls.ConnectionState) string {
			final := inner(mech, initial, io, st)
			if strings.HasPrefix(final, "235") {
				if _, err := io.Challenge([]byte("one more unexpected challenge")); err != nil {
					return "501 5.5.2 cancelled"
				}
			}
			return final
		}
	}
	caps := []string{"8BITMIME", "AUTH " + wire}
	cfg := smtpCfg{TLS: "none", Auth: c.Mech, User: c.User, Pass: c.Pass}
	var maxv uint16
	if c.TLS != "none" {
		caps = append([]string{"STARTTLS"}, caps...)
		cfg.TLS = "mandatory"
		maxv = tls.VersionTLS12
		if c.TLS == "1.3" {
			maxv = tls.VersionTLS13
		}
	}
	srv := refsmtp.NewServer(refsmtp.Script{Caps: caps, Steps: c.Steps, NoGreetProbe: true})
	srv.Auth = refsasl.Mux(map[string]refsmtp.AuthHandler{wire: handler})
	srv.TLS = serverTLS(maxv)
	d := &refsmtp.Dialer{Srv: srv}
	opts := cfg.options(d)
	capture := &captureLogger{}
	var sink bytes.Buffer
	var sinkMu sync.Mutex
	w := writerFunc(func(p []byte) (int, error) { sinkMu.Lock(); defer sinkMu.Unlock(); return sink.Write(p) })
	var theLogger maillog.Logger
	switch c.Logger {
	case "std":
		theLogger = maillog.New(w, maillog.LevelDebug)
	case "json":
		theLogger = maillog.NewJSON(w, maillog.LevelDebug)
	default:
		theLogger = capture
	}
	if c.CfgVia != "setters" && c.CfgVia != "setters-after-dial" {
		opts = append(opts, mail.WithLogger(theLogger), mail.WithDebugLog())
	}
	if c.CfgVia == "authdata-off" {
		opts = append(opts, mail.WithLogAuthData())
	}
	cl, err := mail.NewClient(refHost, opts...)
	if err != nil {
		return []*core.Violation{core.V("HARNESS-newclient", "%v", err)}
	}
	switch c.CfgVia {
	case "setters":
		cl.SetLogger(theLogger)
		cl.SetDebugLog(true)
		rec.Class("configured-through-setters")
	case "authdata-off":
		cl.SetLogAuthData(false)
		rec.Class("auth-data-logging-switched-off-again")
	}
	marker := "windowtoken" + core.Hash(c.User+c.Pass)
	m := mail.NewMsg()
	_ = m.From(marker + "@sender.verif.example")
	_ = m.To("rcpt@verif.example")
	m.Subject("c16")
	m.SetBodyString(mail.TypeTextPlain, "body\r\n")
	var dialErr, sendErr error
	var r callResult
	debugWasOn := c.Mid != "debugon"
	if c.Direct {
		r = watchdog(20*time.Second, d, func() error {
			conn, derr := d.DialContext(context.Background(), "tcp", refHost+":25")
			if derr != nil {
				dialErr = derr
				return nil
			}
			sc, nerr := smtp.NewClient(conn, refHost)
			if nerr != nil {
				dialErr = nerr
				return nil
			}
			defer func() { _ = sc.Close() }()
			switch c.Logger {
			case "std":
				sc.SetLogger(maillog.New(w, maillog.LevelDebug))
			case "json":
				sc.SetLogger(maillog.NewJSON(w, maillog.LevelDebug))
			default:
				sc.SetLogger(capture)
			}
			if c.Mid != "debugon" {
				sc.SetDebugLog(true)
			} // else: a logger is set but debug logging is still off (its default) when Auth starts
			if !c.NoHello {
				if herr := sc.Hello("client.verif.example"); herr != nil {
					dialErr = herr
					return nil
				}
			}
			var a smtp.Auth
			switch wire {
			case "PLAIN":
				a = smtp.PlainAuth("", c.User, c.Pass, refHost, true)
			case "LOGIN":
				a = smtp.LoginAuth(c.User, c.Pass, refHost, true)
			case "CRAM-MD5":
				a = smtp.CRAMMD5Auth(c.User, c.Pass)
			case "XOAUTH2":
				a = smtp.XOAuth2Auth(c.User, c.Pass)
			case "SCRAM-SHA-1":
				a = smtp.ScramSHA1Auth(c.User, c.Pass)
			default:
				a = smtp.ScramSHA256Auth(c.User, c.Pass)
			}
			switch c.Mid {
			case "close":
				a = &midAuth{Auth: a, at: max(c.MidStep, 1), hook: func() { _ = sc.Close() }}
			case "debugon":
				a = &midAuth{Auth: a, at: max(c.MidStep, 1), hook: func() { sc.SetDebugLog(true); debugWasOn = true }}
			case "noop":
				// another goroutine's keep-alive lands between two steps of the exchange (the server takes the
				// line for a SASL response and ends the exchange with a final reply)
				a = &midAuth{Auth: a, at: max(c.MidStep, 1), hook: func() {
					done := make(chan struct{})
					go func() { defer close(done); _ = sc.Noop() }()
					select {
					case <-done:
					case <-time.After(5 * time.Second):
					}
				}}
			}
			dialErr = sc.Auth(a)
			// whether or not the exchange succeeded, the application goes on using the connection as
			// long as it works (a failed exchange whose error came from reading the reply sends no QUIT)
			if c.SendMsg {
				if sendErr = sc.Mail(marker + "@sender.verif.example"); sendErr == nil {
					_ = sc.Reset()
				}
			}
			if dialErr != nil {
				_ = sc.Noop()
			}
			_ = sc.Quit()
			return nil
		})
	} else {
		r = watchdog(20*time.Second, d, func() error {
			if dialErr = cl.DialWithContext(context.Background()); dialErr != nil {
				return nil
			}
			if c.CfgVia == "setters-after-dial" {
				// logging switched on for an established, authenticated connection: from here on the traffic
				// is logged normally
				cl.SetLogger(theLogger)
				cl.SetDebugLog(true)
			}
			if c.SendMsg {
				sendErr = cl.Send(m)
			}
			_ = cl.Close()
			return nil
		})
	}
	d.Shutdown()
	if r.Panic != nil {
		return []*core.Violation{core.V("panic", "client panicked: %v", r.Panic)}
	}
	if r.TimedOut {
		rec.AddExtra("inconclusive_watchdog", 1)
		return nil
	}
	if len(d.Sessions) == 0 {
		rec.Skip()
		return nil
	}
	sess := d.Sessions[0]
	// everything that was logged, as a list of strings
	var logged []string
	capture.mu.Lock()
	for _, lr := range capture.recs {
		for _, mm := range lr.Messages {
			logged = append(logged, fmt.Sprint(mm))
		}
		logged = append(logged, fmt.Sprintf(lr.Format, lr.Messages...))
	}
	nrecs := len(capture.recs)
	capture.mu.Unlock()
	sinkMu.Lock()
	raw := sink.String()
	sinkMu.Unlock()
	if raw != "" {
		logged = append(logged, raw)
		for _, line := range strings.Split(raw, "\n") {
			nrecs++
			if c.Logger == "json" && strings.TrimSpace(line) != "" {
				var obj map[string]interface{}
				if err := json.Unmarshal([]byte(line), &obj); err == nil {
					var walk func(v interface{})
					walk = func(v interface{}) {
						switch x := v.(type) {
						case string:
							logged = append(logged, x)
						case map[string]interface{}:
							for _, y := range x {
								walk(y)
							}
						case []interface{}:
							for _, y := range x {
								walk(y)
							}
						}
					}
					walk(obj)
				}
			}
		}
	}
	var vs []*core.Violation
	find := func(needle string) (string, bool) {
		if len(needle) < 8 {
			return "", false
		}
		for _, l := range logged {
			if strings.Contains(l, needle) {
				return l, true
			}
		}
		return "", false
	}
	for enc, needle := range secretNeedles(c.Pass) {
		if l, ok := find(needle); ok {
			vs = append(vs, core.V("secret-in-log", "the password/token (%s form) appears in a log record: %q (mechanism %s, logger %s)", enc, clipS(l), c.Mech, c.Logger))
		}
	}
	// the SASL responses that carry the secret (or a proof derived from it)
	var secretLines []string
	for _, cmd := range sess.AuthCmds {
		f := strings.Fields(cmd)
		if len(f) >= 3 && (wire == "PLAIN" || wire == "XOAUTH2") {
			secretLines = append(secretLines, f[2])
		}
	}
	for _, l := range sess.AuthLines {
		if l == "" || l == "*" {
			continue
		}
		dec, err := base64.StdEncoding.DecodeString(l)
		if err != nil {
			continue
		}
		switch {
		case wire == "PLAIN" || wire == "XOAUTH2":
			if bytes.Contains(dec, []byte(c.Pass)) {
				secretLines = append(secretLines, l)
			}
		case wire == "LOGIN":
			if string(dec) == c.Pass {
				secretLines = append(secretLines, l)
			}
		case wire == "CRAM-MD5":
			secretLines = append(secretLines, l)
			if i := bytes.LastIndexByte(dec, ' '); i >= 0 {
				secretLines = append(secretLines, string(dec[i+1:]))
			}
		default: // SCRAM: the client-final message carries the proof
			if bytes.HasPrefix(dec, []byte("c=")) {
				secretLines = append(secretLines, l)
				if i := bytes.LastIndex(dec, []byte(",p=")); i >= 0 {
					secretLines = append(secretLines, string(dec[i+3:]))
				}
			}
		}
	}
	if wire == "CRAM-MD5" {
		// what the client derives from the secret is known to the harness even if the line never
		// reached the server (e.g. because the write failed)
		digest := refsasl.CramDigest(c.Pass, "<4711.1234567@ref.verif.example>")
		secretLines = append(secretLines, digest, base64.StdEncoding.EncodeToString([]byte(c.User+" "+digest)))
	}
	for _, sl := range secretLines {
		if l, ok := find(sl); ok {
			vs = append(vs, core.V("sasl-response-in-log", "the SASL response %q (carries the secret or a proof derived from it) appears in a log record: %q (mechanism %s, logger %s)", clipS(sl), clipS(l), c.Mech, c.Logger))
		}
	}
	// the redaction window closes again
	if c.SendMsg && (dialErr == nil || c.Direct) && debugWasOn && c.Mid != "close" {
		mailSeen := false
		for _, t := range sess.Txns {
			if strings.Contains(t.From, marker) {
				mailSeen = true
			}
		}
		// direct mode: the line went over the wire (whatever the server took it for), so the client
		// has written it outside any exchange
		if c.Direct && dialErr != nil && bytes.Contains(sess.Cleartext, []byte("MAIL FROM:<"+marker)) {
			mailSeen = true
		}
		if mailSeen {
			if _, ok := find(marker); !ok {
				vs = append(vs, core.V("window-not-closed", "MAIL FROM:<%s@...> was sent after authentication but does not appear in the log: traffic after the exchange is still redacted (or not logged)", marker))
			}
		}
	}
	if nrecs == 0 && c.CfgVia == "setters-after-dial" && (dialErr != nil || !c.SendMsg) {
		// logging is only switched on after a successful dial, and only a send produces traffic then
		rec.Skip()
		return nil
	}
	if nrecs == 0 && debugWasOn {
		vs = append(vs, core.V("HARNESS-nolog", "no log record was captured at all: %+v dialErr=%v", c, dialErr))
	}
	// evidence
	abnormal := dialErr != nil
	responses := 0
	for _, l := range sess.AuthLines {
		if l != "*" {
			responses++
		}
	}
	if len(sess.AuthCmds) > 0 && len(strings.Fields(sess.AuthCmds[0])) >= 3 {
		responses++
	}
	var keys []string
	for k, o := range c.Steps {
		keys = append(keys, k+"="+o.Kind+fmt.Sprint(o.Code))
	}
	rec.Class("mech:" + wire)
	rec.Class("logger:" + c.Logger)
	if abnormal {
		rec.Class("exchange:failed")
	} else {
		rec.Class("exchange:ok")
	}
	if responses >= 2 || abnormal {
		rec.NonTrivial(core.Join(c.Mech, c.TLS, c.Wrong, strings.Join(keys, ","), c.Extra, c.Logger, c.SendMsg, c.Direct, c.NoHello, c.Mid, c.MidStep, c.Prompts, core.Hash(c.Pass)))
		rec.Sample(c.Mech+"/"+c.Logger+fmt.Sprint(abnormal), map[string]interface{}{"mech": c.Mech, "tls": c.TLS, "wrong_password": c.Wrong, "faults": keys, "extra_challenge": c.Extra, "logger": c.Logger, "log_records": nrecs, "secret_lines_checked": len(secretLines), "dial_error": fmt.Sprint(dialErr), "send_error": fmt.Sprint(sendErr)})
	}
	return vs
}

type writerFunc func([]byte) (int, error)

func (f writerFunc) Write(p []byte) (int, error) { return f(p) }

func c16Gen(t *rapid.T) c16Case {
	c := c16Case{}
	c.Mech = rapid.SampledFrom([]string{"PLAIN-NOENC", "LOGIN-NOENC", "PLAIN", "LOGIN", "CRAM-MD5", "XOAUTH2", "SCRAM-SHA-1", "SCRAM-SHA-256", "SCRAM-SHA-1-PLUS", "SCRAM-SHA-256-PLUS", "AUTODISCOVER"}).Draw(t, "mech")
	switch {
	case strings.HasSuffix(c.Mech, "PLUS") || c.Mech == "PLAIN" || c.Mech == "LOGIN":
		c.TLS = rapid.SampledFrom([]string{"1.2", "1.3"}).Draw(t, "tls")
	default:
		c.TLS = rapid.SampledFrom([]string{"none", "none", "1.2", "1.3"}).Draw(t, "tls")
	}
	if c.Mech == "AUTODISCOVER" {
		// resolves to a concrete mechanism on the wire; advertise exactly one
		c.Mech = rapid.SampledFrom([]string{"CRAM-MD5", "SCRAM-SHA-256", "SCRAM-SHA-1"}).Draw(t, "discover")
	}
	c.User = "user" + rapid.StringMatching(`[a-z0-9]{4,10}`).Draw(t, "user")
	c.Pass = rapid.StringMatching(`[A-Za-z0-9]{12,40}`).Draw(t, "pass")
	if rapid.IntRange(0, 7).Draw(t, "longsecret") == 0 {
		// a JWT-sized token / a pass phrase: command lines beyond RFC 5321's 510 octets
		c.Pass = strings.Repeat(c.Pass, rapid.SampledFrom([]int{12, 20, 40, 60}).Draw(t, "secretrepeat"))
	}
	if strings.HasPrefix(c.Mech, "SCRAM") && rapid.IntRange(0, 5).Draw(t, "kink") == 0 {
		// a character in the middle that the password profile (PRECIS OpaqueString) refuses: the client
		// gives up locally - and must not quote the password when it says why
		k := len(c.Pass) / 2
		c.Pass = c.Pass[:k] + rapid.SampledFrom([]string{"\t", "\u200b", "\u00ad", "\x01", "\u1100", "\u0085"}).Draw(t, "kinkrune") + c.Pass[k:]
	}
	c.Wrong = rapid.IntRange(0, 3).Draw(t, "wrong") == 0
	c.Logger = rapid.SampledFrom([]string{"capture", "capture", "std", "json"}).Draw(t, "logger")
	c.SendMsg = rapid.Bool().Draw(t, "sendmsg")
	if c.TLS == "none" && rapid.IntRange(0, 3).Draw(t, "direct") == 0 {
		c.Direct = true
		c.NoHello = rapid.Bool().Draw(t, "nohello")
		c.Mid = rapid.SampledFrom([]string{"", "", "close", "debugon", "noop"}).Draw(t, "mid")
		c.MidStep = rapid.IntRange(1, 2).Draw(t, "midstep")
		c.Mech = strings.TrimSuffix(c.Mech, "-NOENC")
	} else {
		c.CfgVia = rapid.SampledFrom([]string{"", "", "", "setters", "authdata-off", "setters-after-dial"}).Draw(t, "cfgvia")
	}
	if strings.HasPrefix(c.Mech, "LOGIN") {
		c.Prompts = rapid.SampledFrom([]string{"", "", "Username:|Username:", "User Name|User Password", "username:|userpassword:", "Login:|Secret:", "|", "User:|user secret"}).Draw(t, "prompts")
	}
	c.Steps = map[string]refsmtp.Outcome{}
	switch rapid.IntRange(0, 10).Draw(t, "script") {
	case 0:
		c.Steps["auth#1"] = refsmtp.Outcome{Kind: "reply", Code: 535, Text: "5.7.8 no"}
	case 1:
		k := rapid.IntRange(1, 3).Draw(t, "failstep")
		c.Steps[fmt.Sprintf("authstep#%d", k)] = refsmtp.Outcome{Kind: "reply", Code: 535, Text: "5.7.8 no"}
	case 2:
		k := rapid.IntRange(1, 3).Draw(t, "garbagestep")
		c.Steps[fmt.Sprintf("authstep#%d", k)] = refsmtp.Outcome{Kind: "reply", Code: 334, Text: "!!!this-is-not-base64!!!"}
	case 3:
		k := rapid.IntRange(1, 3).Draw(t, "dropstep")
		c.Steps[fmt.Sprintf("authstep#%d", k)] = refsmtp.Outcome{Kind: "drop"}
	case 4:
		c.Extra = true
	case 5:
		c.Steps["auth#1"] = refsmtp.Outcome{Kind: "drop"}
	case 6: // the challenge is sent, then the connection is closed: the client's write of its response fails
		k := rapid.IntRange(1, 3).Draw(t, "dropafterstep")
		c.Steps[fmt.Sprintf("authstep#%d", k)] = refsmtp.Outcome{Kind: "dropafter"}
	case 8: // an unparsable reply line inside the exchange: reading it fails, the connection survives
		k := rapid.IntRange(1, 3).Draw(t, "badreplystep")
		c.Steps[fmt.Sprintf("authstep#%d", k)] = refsmtp.Outcome{Kind: "reply", Code: 33, Text: "short"}
	case 7: // the connection is closed right after the EHLO reply: the AUTH command itself (with an initial response) cannot be written
		if c.TLS == "none" {
			c.Steps["ehlo#1"] = refsmtp.Outcome{Kind: "dropafter", Code: 250, Text: "ref.verif.example\n8BITMIME\nAUTH " + strings.TrimSuffix(c.Mech, "-NOENC")}
		}
	}
	return c
}

func TestC16(t *testing.T) {
	rec := core.Rec("C16")
	rec.Rule = "the real Client with WithDebugLog (auth-data logging not enabled) authenticates against the reference SASL servers with mechanisms {PLAIN, LOGIN (NOENC and over TLS), CRAM-MD5, XOAUTH2, SCRAM-SHA-1/-256 and PLUS over TLS 1.2/1.3}, random alphanumeric passwords/tokens of 12..40 characters (one in eight 150..2400 characters long, so that the SASL command lines exceed 510 octets), right or wrong password, and server scripts {success, 535 to the AUTH command, 535 / non-base64 challenge / unparsable reply line / disconnect at exchange step 1..3, LOGIN servers with their own wording of the two prompts (incl. the same prompt twice), unexpected extra challenge, disconnect at AUTH, disconnect right after a challenge or right after the EHLO reply so that the client's write of the secret-bearing line fails}; loggers: a capturing log.Logger, log.New (text) and log.NewJSON; optionally followed by a MAIL/RCPT/DATA transaction; one case in four (of the non-TLS ones) drives the exported smtp.Client API directly (NewClient, SetLogger, SetDebugLog, Auth with or without a prior Hello, Mail, Quit), optionally with Client.Close(), SetDebugLog(true) or another goroutine's NOOP happening between two steps of the exchange. " +
		"Oracle: no log record (each Messages element, the formatted record, the stock loggers' bytes, every JSON string value) contains the password/token raw, in hex, or in base64 at any of the three alignments, nor any SASL response line that carries the secret or a proof derived from it (as recorded by the server); and the MAIL FROM line sent after authentication - in direct mode also after a FAILED exchange that left the connection usable - appears in the log (redaction window closed). " +
		"Non-trivial: >= 2 client responses in the exchange or an abnormal end. Distinct by (mechanism, TLS, wrong password, script, logger, transaction, password)."
	rec.Assumptions = []string{"passwords are alphanumeric so that JSON escaping cannot hide them", "the user name and the mechanism name are not secrets"}
	core.Prop[c16Case]{ID: "C16", Test: "TestC16", Gen: c16Gen, Run: c16Run}.Check(t)
}
