package props

import (
	"context"
	"sync"
	"testing"
	"time"

	mail "github.com/wneessen/go-mail"

	"verif/harness/core"
	"verif/harness/refsmtp"
)

// C19, several DialWithContext calls on ONE Client at a time. Whatever the library makes of that (today every
// call succeeds and the Client keeps the connection of the call that finished last), a call that returns an
// ERROR after its connection was opened has closed that connection: the number of connections still open when
// all calls are back cannot exceed the number of calls that returned nil.

type c19OverlapCase struct {
	N   int    `json:"n"`
	TLS string `json:"tls"` // none | mandatory
}

func c19OverlapRun(c c19OverlapCase) []*core.Violation {
	rec := core.Rec("C19")
	cfg := smtpCfg{TLS: c.TLS}
	caps := []string{"8BITMIME"}
	if c.TLS == "mandatory" {
		caps = []string{"STARTTLS", "8BITMIME"}
	}
	var vs []*core.Violation
	for round := 0; round < 6 && len(vs) == 0; round++ {
		srv := refsmtp.NewServer(refsmtp.Script{Caps: caps, NoGreetProbe: true})
		srv.TLS = serverTLS(0)
		d := &refsmtp.Dialer{Srv: srv}
		cl, err := mail.NewClient(refHost, cfg.options(d)...)
		if err != nil {
			return []*core.Violation{core.V("HARNESS-newclient", "%v", err)}
		}
		errs := make([]error, c.N)
		var wg sync.WaitGroup
		start := make(chan struct{})
		for i := 0; i < c.N; i++ {
			wg.Add(1)
			go func(i int) {
				defer wg.Done()
				defer func() { _ = recover() }()
				<-start
				errs[i] = cl.DialWithContext(context.Background())
			}(i)
		}
		close(start)
		done := make(chan struct{})
		go func() { wg.Wait(); close(done) }()
		select {
		case <-done:
		case <-time.After(30 * time.Second):
			d.Shutdown()
			rec.AddExtra("inconclusive_watchdog", 1)
			return nil
		}
		ok, failed := 0, 0
		var firstErr error
		for _, e := range errs {
			if e == nil {
				ok++
			} else {
				failed++
				if firstErr == nil {
					firstErr = e
				}
			}
		}
		open := 0
		for _, bc := range d.Conns {
			if !bc.Closed() {
				open++
			}
		}
		if open > ok {
			vs = append(vs, core.V("open-after-error", "%d concurrent DialWithContext calls on one Client: %d returned nil, %d returned an error (first: %v), but %d of the %d connections that were opened are still open", c.N, ok, failed, firstErr, open, len(d.Conns)))
		}
		if failed > 0 {
			rec.AddExtra("overlapping_dials_that_returned_an_error", failed)
		}
		_ = cl.Close()
		d.Shutdown()
		rec.AddExtra("overlapping_dial_rounds", 1)
	}
	rec.NonTrivial(core.Join("overlap", c.N, c.TLS))
	return vs
}

func TestC19Overlap(t *testing.T) {
	c19Describe()
	p := core.Prop[c19OverlapCase]{ID: "C19", Test: "TestC19Overlap", Run: c19OverlapRun}
	if core.ReplayArg != "" {
		p.Check(t)
		return
	}
	i := 0
	for _, n := range []int{2, 3, 8} {
		for _, tlsm := range []string{"none", "mandatory"} {
			i++
			if i%core.Shards != core.Shard {
				continue
			}
			if v := p.RunOne(c19OverlapCase{N: n, TLS: tlsm}); v != nil {
				t.Fatalf("VIOLATION-DETAIL property=C19 %s", v)
			}
		}
	}
}
