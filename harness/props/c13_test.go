package props

import (
	"bytes"
	"context"
	"crypto/tls"
	"fmt"
	"runtime"
	"strings"
	"sync"
	"testing"
	"time"

	mail "github.com/wneessen/go-mail"
	"pgregory.net/rapid"

	"verif/harness/core"
	"verif/harness/refsasl"
	"verif/harness/refsmtp"
)

// C13 — concurrent use of one Client is safe. Build with -race.

type c13Case struct {
	Goroutines int    `json:"goroutines"`
	MsgsPer    int    `json:"msgs_per"`
	DialEvery  int    `json:"dial_every"` // every n-th goroutine uses DialAndSend on the same Client (0 = none)
	JitterUS   []int  `json:"jitter_us"`
	Procs      int    `json:"procs"`
	Batch      bool   `json:"batch"`          // a goroutine hands all its messages to one Send call
	Auth       string `json:"auth,omitempty"` // "" | LOGIN-NOENC | CRAM-MD5 | SCRAM-SHA-256: every connection authenticates against a verifying server
	// RefuseEvery > 0: every n-th goroutine's messages have recipients the server refuses (550).
	RefuseEvery int `json:"refuse_every,omitempty"`
	// RsetDrop: the first RSET that abandons a refused message is answered 421 and the connection dropped.
	RsetDrop bool `json:"rset_drop,omitempty"`
	// CutEvery > 0: every n-th goroutine sends BIG messages (64 KiB) through DialAndSend, and the server
	// closes their connection after 3000 bytes of content. They must fail cleanly; everybody else's
	// messages are unaffected and carry nothing of the cut ones.
	CutEvery int `json:"cut_every,omitempty"`
	// TLS: every goroutine calls DialAndSend on a Client with mandatory STARTTLS whose *tls.Config was
	// supplied by the caller without a ServerName; there is no earlier, single-threaded dial, so the
	// first dials of the Client overlap.
	TLS bool `json:"tls,omitempty"`
}

func c13Msg(token string, refused, cut bool) *mail.Msg {
	m := mail.NewMsg()
	_ = m.From(token + "@sender.verif.example")
	if cut {
		_ = m.To("cut-"+token+"@rcpt.verif.example", "cut-"+token+"b@rcpt.verif.example")
		m.Subject("subject " + token)
		m.SetBodyString(mail.TypeTextPlain, "body of "+token+"\r\n"+strings.Repeat("line of "+token+" in a message that is cut off\r\n", 1400))
		return m
	}
	if refused {
		_ = m.To("reject-"+token+"@rcpt.verif.example", "reject-"+token+"b@rcpt.verif.example")
	} else {
		_ = m.To(token+"@rcpt.verif.example", token+"b@rcpt.verif.example")
	}
	m.Subject("subject " + token)
	// the Message-ID is left to the library (generated on first render, concurrently for DialAndSend
	// callers); the mixing oracle skips that one field, whose random part ([A-Za-z0-9_.-]{22}) contains the
	// token marker "tokg" about once in a million messages
	m.SetBodyString(mail.TypeTextPlain, "body of "+token+"\r\n"+strings.Repeat("line of "+token+"\r\n", 20))
	return m
}

// c13WithoutMessageID drops the Message-ID field (with its continuation lines) from a payload.
func c13WithoutMessageID(p []byte) []byte {
	lines := bytes.SplitAfter(p, []byte("\r\n"))
	var out []byte
	skipping, inHeader := false, true
	for _, l := range lines {
		if inHeader && len(bytes.TrimRight(l, "\r\n")) == 0 {
			inHeader = false
		}
		if inHeader {
			if len(l) > 0 && (l[0] == ' ' || l[0] == '\t') {
				if skipping {
					continue
				}
			} else {
				skipping = len(l) >= 11 && strings.EqualFold(string(l[:11]), "message-id:")
				if skipping {
					continue
				}
			}
		}
		out = append(out, l...)
	}
	return out
}

func c13Run(c c13Case) []*core.Violation {
	rec := core.Rec("C13")
	old := runtime.GOMAXPROCS(c.Procs)
	defer runtime.GOMAXPROCS(old)
	script := refsmtp.Script{Caps: []string{"8BITMIME"}, JitterUS: c.JitterUS, NoGreetProbe: true, RejectRcptPrefix: "reject-"}
	if c.CutEvery > 0 {
		script.DropDataRcptPrefix, script.DropInData = "cut-", 3000
	}
	if c.RsetDrop {
		script.Steps = map[string]refsmtp.Outcome{"rsetabandon#1": {Kind: "dropafter", Code: 421, Text: "4.7.0 too many errors"}}
	}
	srv := refsmtp.NewServer(script)
	d := &refsmtp.Dialer{Srv: srv}
	cfg := smtpCfg{TLS: "none", TimeoutMS: 20000}
	if c.Auth != "" {
		acc := refsasl.Account{User: "c13user", Pass: "c13-Secret+Pass"}
		cfg.Auth, cfg.User, cfg.Pass = c.Auth, acc.User, acc.Pass
		wire := strings.TrimSuffix(c.Auth, "-NOENC")
		srv.Script.Caps = append(srv.Script.Caps, "AUTH "+wire)
		// one verifier per connection: the handlers keep no state between exchanges, the Result is unused
		switch wire {
		case "LOGIN":
			srv.Auth = refsasl.Login(acc, &refsasl.Result{})
		case "CRAM-MD5":
			srv.Auth = refsasl.CramMD5(acc, "<c13.challenge@ref.verif.example>", &refsasl.Result{})
		default:
			srv.Auth = refsasl.Scram(acc, refsasl.ScramParams{Hash: "SHA-256", Salt: []byte("c13-salt"), Iter: 4, NonceSuffix: "c13srv"}, &refsasl.Result{})
		}
	}
	opts := cfg.options(d)
	if c.TLS {
		cfg.TLS = "mandatory"
		srv.Script.Caps = append([]string{"STARTTLS"}, srv.Script.Caps...)
		srv.TLS = serverTLS(0)
		opts = append(cfg.options(d), mail.WithTLSConfig(&tls.Config{InsecureSkipVerify: true, MinVersion: tls.VersionTLS12}))
	}
	cl, err := mail.NewClient(refHost, opts...)
	if err != nil {
		return []*core.Violation{core.V("HARNESS-newclient", "%v", err)}
	}
	if !c.TLS {
		if err := cl.DialWithContext(context.Background()); err != nil {
			d.Shutdown()
			return []*core.Violation{core.V("HARNESS-dial", "%v", err)}
		}
	}
	type sent struct {
		token   string
		msg     *mail.Msg
		err     error
		refused bool
	}
	var mu sync.Mutex
	var all []*sent
	var wg sync.WaitGroup
	start := make(chan struct{})
	for g := 0; g < c.Goroutines; g++ {
		g := g
		wg.Add(1)
		go func() {
			defer wg.Done()
			var mine []*sent
			for k := 0; k < c.MsgsPer; k++ {
				tok := fmt.Sprintf("tokg%dm%dz", g, k)
				refused := c.RefuseEvery > 0 && g%c.RefuseEvery == 0
				cut := c.CutEvery > 0 && g%c.CutEvery == 1
				mine = append(mine, &sent{token: tok, msg: c13Msg(tok, refused, cut), refused: refused || cut})
			}
			mu.Lock()
			all = append(all, mine...)
			mu.Unlock()
			<-start
			useDial := c.DialEvery > 0 && g%c.DialEvery == c.DialEvery-1
			if c.CutEvery > 0 && g%c.CutEvery == 1 {
				useDial = true // the cut happens on a connection of its own
			}
			if c.TLS {
				useDial = true
			}
			if c.Batch || useDial {
				var ms []*mail.Msg
				for _, s := range mine {
					ms = append(ms, s.msg)
				}
				var err error
				if useDial {
					err = cl.DialAndSend(ms...)
				} else {
					err = cl.Send(ms...)
				}
				for _, s := range mine {
					s.err = err
				}
				return
			}
			for _, s := range mine {
				s.err = cl.Send(s.msg)
			}
		}()
	}
	doneCh := make(chan struct{})
	go func() { wg.Wait(); close(doneCh) }()
	close(start)
	select {
	case <-doneCh:
	case <-time.After(45 * time.Second):
		d.Shutdown()
		// three orders of magnitude above the normal run time of a case: some Send call never returned
		return []*core.Violation{core.V("send-never-returned", "%d goroutines x %d messages: at least one Send/DialAndSend call had not returned after 45 s (refuse_every=%d, rset_drop=%v)", c.Goroutines, c.MsgsPer, c.RefuseEvery, c.RsetDrop)}
	}
	_ = cl.Close()
	d.Shutdown()
	var vs []*core.Violation
	commits := map[string]int{}
	for i, s := range d.Sessions {
		select {
		case <-s.Done:
		default:
			continue
		}
		for _, v := range s.Violations {
			vs = append(vs, core.V("interleaved-"+v.Key, "connection %d: %s\n%s", i, v.Msg, s.Transcript(40)))
		}
		for _, t := range s.Txns {
			if !t.Committed {
				continue
			}
			tok := strings.TrimSuffix(t.From, "@sender.verif.example")
			commits[tok]++
			// envelope and content belong together
			if len(t.Rcpts) != 2 || t.Rcpts[0].Path != tok+"@rcpt.verif.example" || t.Rcpts[1].Path != tok+"b@rcpt.verif.example" {
				vs = append(vs, core.V("envelope-mixed", "transaction of %s has recipients %+v", tok, t.Rcpts))
			}
			if !bytes.Contains(t.Payload, []byte("body of "+tok+"\r\n")) || !bytes.Contains(t.Payload, []byte("subject "+tok)) || bytes.Count(t.Payload, []byte("line of "+tok+"\r\n")) != 20 {
				vs = append(vs, core.V("content-mixed", "the content committed for %s is not that message's complete content (%d bytes)", tok, len(t.Payload)))
			}
			content := c13WithoutMessageID(t.Payload)
			if n := bytes.Count(content, []byte("tokg")); n != bytes.Count(content, []byte(tok)) {
				vs = append(vs, core.V("content-mixed", "the content committed for %s contains tokens of other messages", tok))
			}
		}
	}
	faulty := c.RefuseEvery > 0 || c.CutEvery > 0
	for _, s := range all {
		delivered := s.msg.IsDelivered()
		switch {
		case s.refused:
			if s.err == nil || delivered || commits[s.token] != 0 {
				vs = append(vs, core.V("refused-message-state", "%s was refused by the server but: error %v, delivered %v, committed %d times", s.token, s.err, delivered, commits[s.token]))
			}
		case !faulty:
			if s.err != nil {
				vs = append(vs, core.V("send-error", "sending %s returned %v", s.token, s.err))
			}
			if !delivered {
				vs = append(vs, core.V("not-delivered", "%s is not marked delivered", s.token))
			}
			if commits[s.token] != 1 {
				vs = append(vs, core.V("commit-count", "%s was committed %d times", s.token, commits[s.token]))
			}
		default:
			// with refused messages (and possibly a dropped connection) around, a valid message either
			// went through completely or failed cleanly; batched calls share one error value
			if commits[s.token] > 1 || delivered != (commits[s.token] == 1) {
				vs = append(vs, core.V("commit-count", "%s: delivered=%v but committed %d times (error %v)", s.token, delivered, commits[s.token], s.err))
			}
			if !c.RsetDrop && !c.Batch && (s.err != nil || !delivered) {
				// nothing was done to the connection: a refused message of another goroutine must not hurt this one
				vs = append(vs, core.V("innocent-message-failed", "%s is a valid message but failed (%v, delivered %v) although only OTHER messages were refused", s.token, s.err, delivered))
			}
		}
	}
	if len(vs) > 3 {
		vs = vs[:3]
	}
	jit := len(c.JitterUS) > 0
	if c.Goroutines >= 4 && jit {
		rec.NonTrivial(core.Join(c.Goroutines, c.MsgsPer, c.DialEvery, fmt.Sprint(c.JitterUS), c.Procs, c.Batch, c.Auth, c.RefuseEvery, c.RsetDrop, c.CutEvery, c.TLS))
		rec.Sample(fmt.Sprintf("%d/%d", c.Goroutines/16, c.DialEvery), map[string]interface{}{"case": c, "connections": len(d.Sessions), "messages": len(all)})
	}
	rec.AddExtra("messages_sent", len(all))
	return vs
}

func c13Gen(t *rapid.T) c13Case {
	c := c13Case{}
	c.Goroutines = rapid.SampledFrom([]int{2, 3, 4, 8, 8, 16, 16, 32, 64}).Draw(t, "goroutines")
	c.MsgsPer = rapid.IntRange(1, 4).Draw(t, "msgsper")
	c.DialEvery = rapid.SampledFrom([]int{0, 0, 2, 3, 5}).Draw(t, "dialevery")
	c.Procs = rapid.SampledFrom([]int{2, 4, 16}).Draw(t, "procs")
	c.Batch = rapid.Bool().Draw(t, "batch")
	if rapid.IntRange(0, 3).Draw(t, "refuse") == 0 {
		c.RefuseEvery = rapid.SampledFrom([]int{2, 3, 4}).Draw(t, "refuseevery")
		c.RsetDrop = rapid.IntRange(0, 2).Draw(t, "rsetdrop") == 0
		c.DialEvery = 0
	}
	if c.RefuseEvery == 0 && rapid.IntRange(0, 4).Draw(t, "cut") == 0 {
		c.CutEvery = rapid.SampledFrom([]int{2, 3, 4}).Draw(t, "cutevery")
	}
	c.Auth = rapid.SampledFrom([]string{"", "", "LOGIN-NOENC", "CRAM-MD5", "SCRAM-SHA-256"}).Draw(t, "auth")
	if c.Auth != "" && c.DialEvery == 0 {
		c.DialEvery = 2 // authentication only matters for calls that dial
	}
	if c.RefuseEvery == 0 && c.CutEvery == 0 && rapid.IntRange(0, 5).Draw(t, "tls") == 0 {
		c.TLS = true
	}
	if rapid.IntRange(0, 4).Draw(t, "nojitter") != 0 {
		c.JitterUS = rapid.SliceOfN(rapid.SampledFrom([]int{0, 0, 10, 50, 100, 300, 1000}), 1, 7).Draw(t, "jitter")
	}
	return c
}

func TestC13(t *testing.T) {
	rec := core.Rec("C13")
	rec.Rule = "rapid draws (goroutines 2..64, 1..4 messages per goroutine, per-call or batched Send on the shared connection, every n-th goroutine using DialAndSend on the same Client, optionally SMTP AUTH (LOGIN, CRAM-MD5 or SCRAM-SHA-256 against a verifying reference server, so that shared authenticator state shows), a per-reply latency jitter plan for the server, GOMAXPROCS in {2, 4, 16}); the binary is built with -race. One run in four mixes in messages whose recipients the server refuses (optionally with the abandoning RSET answered 421 + disconnect): the refused ones must fail cleanly, the others must be unaffected (or, after the disconnect, fail cleanly), and no call may hang. One run in five has every n-th goroutine send 64 KiB messages through DialAndSend whose connection the server closes after 3000 bytes of content: they fail cleanly and nothing of them shows up in anybody else's message. One run in six (and the first case of every fourth process) has every goroutine call DialAndSend with mandatory STARTTLS and a caller-supplied *tls.Config without ServerName, with no earlier dial of the Client. The first case of every process has all goroutines call DialAndSend at once (cold start: lazily initialised package state is first touched under contention). Every message carries a unique token in its sender, recipients, subject and body. " +
		"Oracle: per connection, the reference server's automaton sees no interleaved transaction (nested MAIL etc.); every committed payload carries exactly its own envelope and complete content; every token is committed exactly once; every Send returned nil and every Msg is delivered; any report of the Go race detector is a violation. " +
		"Non-trivial: >= 4 goroutines with jitter enabled. Distinct by the drawn parameters."
	rec.Assumptions = []string{"the harness does not own the Go scheduler: schedules are varied through GOMAXPROCS, goroutine counts and server latency only", "the race detector only sees the executions that happen"}
	p := core.Prop[c13Case]{ID: "C13", Test: "TestC13", Gen: c13Gen, Run: c13Run}
	if core.ReplayArg == "" {
		// the very first messages of the process are rendered by concurrent DialAndSend callers: whatever
		// the library initialises lazily on first use (package-level caches) is initialised under contention
		cold := c13Case{Goroutines: 16, MsgsPer: 1, DialEvery: 1, Procs: 16, JitterUS: []int{0, 50}}
		if core.Shard%2 == 1 {
			cold = c13Case{Goroutines: 12, MsgsPer: 2, DialEvery: 2, Procs: 4, JitterUS: []int{10}}
		}
		if core.Shard%4 == 2 {
			cold = c13Case{Goroutines: 16, MsgsPer: 1, DialEvery: 1, Procs: 16, TLS: true}
		}
		if v := p.RunOne(cold); v != nil {
			t.Fatalf("VIOLATION-DETAIL property=C13 %s", v)
		}
	}
	p.Check(t)
}
