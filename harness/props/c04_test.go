package props

import (
	"context"
	"crypto/ed25519"
	"crypto/rand"
	"errors"
	"fmt"
	"regexp"
	"sort"
	"strings"
	"testing"
	"time"

	mail "github.com/wneessen/go-mail"
	"pgregory.net/rapid"

	"verif/harness/core"
	"verif/harness/refsmtp"
)

// C04 — the SMTP dialogue stays legal and in step under every reply script.

type c04Msg struct {
	NRcpt int `json:"nrcpt"`
	// Unsignable: the message carries an S/MIME key the signer refuses at render time, so its rendering
	// fails after DATA was accepted and before the first byte is written.
	Unsignable bool   `json:"unsignable,omitempty"`
	Enc        string `json:"enc"`
}

type c04Case struct {
	Cfg         smtpCfg                    `json:"cfg"`
	Caps        []string                   `json:"caps"`
	CapsTLS     []string                   `json:"caps_tls,omitempty"`
	Msgs        []c04Msg                   `json:"msgs"`
	Steps       map[string]refsmtp.Outcome `json:"steps,omitempty"`
	DialAndSend bool                       `json:"dial_and_send"`
	// Prior: the same Client has had an earlier connection (dial + close) to a server that advertised
	// EVERY extension; what it learnt there does not count for the judged connection.
	Prior bool `json:"prior,omitempty"`
}

var tagRe = regexp.MustCompile(`\[([a-z]+)#([0-9]+)(?:\.([0-9]+))?\]`)

type c04Result struct {
	sess    *refsmtp.Session
	dialErr error
	sendErr error
	res     callResult
	msgs    []*mail.Msg
}

func c04Exec(c *c04Case) (*c04Result, *core.Violation) {
	srv := refsmtp.NewServer(refsmtp.Script{Caps: c.Caps, CapsTLS: c.CapsTLS, Steps: c.Steps})
	srv.Auth = acceptAnyAuth
	srv.TLS = serverTLS(0)
	d := &refsmtp.Dialer{Srv: srv}
	cl, err := mail.NewClient(refHost, c.Cfg.options(d)...)
	if err != nil {
		return nil, core.V("HARNESS-newclient", "NewClient: %v", err)
	}
	out := &c04Result{}
	for i, mm := range c.Msgs {
		m := simpleMsg(i+1, mm.NRcpt, mm.Enc)
		if mm.Unsignable {
			_, priv, _ := ed25519.GenerateKey(rand.Reader)
			_ = m.SignWithKeypair(priv, signingChain("ecdsa", false).Leaf, nil)
		}
		out.msgs = append(out.msgs, m)
	}
	first := 0
	if c.Prior {
		full := refsmtp.NewServer(refsmtp.Script{Caps: []string{"8BITMIME", "SMTPUTF8", "DSN", "ENHANCEDSTATUSCODES", "PIPELINING", "STARTTLS", "AUTH PLAIN LOGIN CRAM-MD5"},
			CapsTLS: []string{"8BITMIME", "SMTPUTF8", "DSN", "ENHANCEDSTATUSCODES", "PIPELINING", "AUTH PLAIN LOGIN CRAM-MD5"}, NoGreetProbe: true})
		full.Auth = acceptAnyAuth
		full.TLS = serverTLS(0)
		d.Srv = full
		pr := watchdog(20*time.Second, d, func() error {
			if err := cl.DialWithContext(context.Background()); err == nil {
				_ = cl.Close()
			}
			return nil
		})
		if pr.TimedOut || pr.Panic != nil {
			d.Shutdown()
			out.res = pr
			return out, nil
		}
		d.Wait(2 * time.Second)
		first = len(d.Sessions)
		d.Srv = srv
	}
	out.res = watchdog(20*time.Second, d, func() error {
		if c.DialAndSend {
			out.sendErr = cl.DialAndSendWithContext(context.Background(), out.msgs...)
			return nil
		}
		if out.dialErr = cl.DialWithContext(context.Background()); out.dialErr != nil {
			return nil
		}
		out.sendErr = cl.Send(out.msgs...)
		_ = cl.Close()
		return nil
	})
	d.Shutdown()
	if len(d.Sessions) > first {
		out.sess = d.Sessions[first]
	}
	return out, nil
}

func c04Run(c c04Case) []*core.Violation {
	rec := core.Rec("C04")
	out, hv := c04Exec(&c)
	if hv != nil {
		return []*core.Violation{hv}
	}
	if out.res.Panic != nil {
		return []*core.Violation{core.V("panic", "client panicked: %v", out.res.Panic)}
	}
	if out.res.TimedOut {
		rec.AddExtra("inconclusive_watchdog", 1)
		return nil
	}
	if out.sess == nil {
		rec.Skip()
		return nil
	}
	s := out.sess
	var vs []*core.Violation
	tr := func() string { return s.Transcript(40) }
	for _, v := range s.Violations {
		vs = append(vs, core.V("illegal-"+v.Key, "%s\n--- transcript:\n%s", v.Msg, tr()))
	}
	// message <-> transaction mapping by sender address
	ret, notify := c.Cfg.expectedDSN()
	txnOf := map[int][]*refsmtp.Txn{}
	for _, t := range s.Txns {
		var idx int
		if _, err := fmt.Sscanf(t.From, "m%d@sender.verif.example", &idx); err != nil {
			vs = append(vs, core.V("foreign-sender", "MAIL FROM:<%s> does not belong to any message of the batch", t.From))
			continue
		}
		txnOf[idx] = append(txnOf[idx], t)
		// ESMTP parameter forms
		for _, p := range t.FromParams {
			k, v, _ := strings.Cut(p, "=")
			if strings.EqualFold(k, "RET") && (ret == "" || !strings.EqualFold(v, ret)) {
				vs = append(vs, core.V("param-form", "MAIL parameter %s, but the client was configured with RET=%q", p, ret))
			}
		}
		for _, r := range t.Rcpts {
			for _, p := range r.Params {
				k, v, _ := strings.Cut(p, "=")
				if strings.EqualFold(k, "NOTIFY") && (notify == "" || !strings.EqualFold(v, notify)) {
					vs = append(vs, core.V("param-form", "RCPT parameter %s, but the client was configured with NOTIFY=%q", p, notify))
				}
			}
		}
	}
	// which capability set was in force when a MAIL was sent is tracked by the server (param-not-advertised)
	lastCaps := map[string]bool{}
	if len(s.Caps) > 0 {
		for _, k := range s.Caps[len(s.Caps)-1] {
			lastCaps[strings.ToUpper(strings.Fields(k)[0])] = true
		}
	}
	for i, mm := range c.Msgs {
		idx := i + 1
		m := out.msgs[i]
		ts := txnOf[idx]
		if len(ts) > 1 {
			vs = append(vs, core.V("message-sent-twice", "message %d produced %d MAIL commands in one call", idx, len(ts)))
		}
		if mm.Enc == "8bit" && !lastCaps["8BITMIME"] && len(ts) > 0 {
			vs = append(vs, core.V("8bit-without-8bitmime", "8bit message %d was offered (MAIL FROM sent) although the server does not advertise 8BITMIME\n%s", idx, tr()))
		}
		// attribution
		var se *mail.SendError
		if m.HasSendError() && errors.As(m.SendError(), &se) {
			text := se.Error()
			allowed := map[string]bool{}
			switch se.Reason {
			case mail.ErrSMTPMailFrom:
				allowed["mail"], allowed["rset"] = true, true
			case mail.ErrSMTPRcptTo:
				allowed["rcpt"], allowed["rset"] = true, true
			case mail.ErrSMTPData:
				allowed["data"], allowed["rset"] = true, true
			case mail.ErrSMTPDataClose:
				allowed["eod"] = true
			case mail.ErrSMTPReset:
				allowed["rset"], allowed["noop"] = true, true
			default:
				allowed["*"] = true
			}
			// ordinal of this message's MAIL command
			ord := 0
			for k, t := range s.Txns {
				if len(ts) > 0 && t == ts[0] {
					ord = k + 1
				}
			}
			for _, mt := range tagRe.FindAllStringSubmatch(text, -1) {
				kind := mt[1]
				if !allowed["*"] && !allowed[kind] {
					vs = append(vs, core.V("misattributed-reply", "message %d failed with reason %q but quotes the reply %s of another kind of command: %q\n%s", idx, se.Reason, mt[0], text, tr()))
					continue
				}
				switch kind {
				case "mail", "rcpt", "data", "eod":
					var k int
					fmt.Sscanf(mt[2], "%d", &k)
					if ord != 0 && k != ord {
						vs = append(vs, core.V("misattributed-reply", "message %d (transaction %d) quotes reply %s that the server gave in transaction %d: %q\n%s", idx, ord, mt[0], k, text, tr()))
					}
				}
			}
		}
	}
	// evidence
	faults := 0
	var keys []string
	for k, o := range c.Steps {
		if o.Kind != "ok" {
			faults++
			keys = append(keys, k+"="+o.Kind+fmt.Sprint(o.Code/100))
		}
	}
	sort.Strings(keys)
	suppressed := (c.Cfg.DSN != "" && !containsFold(c.Caps, "DSN"))
	for _, mm := range c.Msgs {
		if mm.Enc == "8bit" && !containsFold(c.Caps, "8BITMIME") {
			suppressed = true
		}
	}
	if faults > 0 || suppressed {
		rec.NonTrivial(core.Join(strings.Join(c.Caps, ","), strings.Join(c.CapsTLS, ","), c.Cfg.TLS, c.Cfg.Auth, c.Cfg.DSN, fmt.Sprint(c.Msgs), strings.Join(keys, ","), c.DialAndSend, c.Prior))
		rec.Sample(fmt.Sprintf("%d/%v", faults, c.DialAndSend), map[string]interface{}{"caps": c.Caps, "cfg": c.Cfg, "msgs": c.Msgs, "faults": keys, "steps_seen": s.Steps})
	}
	rec.Class(fmt.Sprintf("faults:%d", faults))
	rec.Class("tls:" + c.Cfg.TLS)
	return vs
}

func containsFold(list []string, k string) bool {
	for _, x := range list {
		f := strings.Fields(x)
		if len(f) > 0 && strings.EqualFold(f[0], k) {
			return true
		}
	}
	return false
}

var c04AllCaps = []string{"8BITMIME", "SMTPUTF8", "DSN", "ENHANCEDSTATUSCODES", "STARTTLS", "AUTH PLAIN LOGIN"}

func c04Outcome(t *rapid.T, label string) refsmtp.Outcome {
	switch rapid.IntRange(0, 5).Draw(t, label+"-kind") {
	case 4:
		// not a fault at all: the positive reply of the step, on three lines
		return refsmtp.Outcome{Kind: "multiline"}
	case 5:
		return refsmtp.Outcome{Kind: "reply", Code: rapid.SampledFrom([]int{450, 550, 552}).Draw(t, label+"-mlcode"), Text: "4.2.2 first line\nsecond line\nthird line"}
	case 0:
		return refsmtp.Outcome{Kind: "reply", Code: rapid.SampledFrom([]int{421, 450, 451, 452}).Draw(t, label+"-4yz"), Text: "4.3.0 try later"}
	case 1:
		return refsmtp.Outcome{Kind: "reply", Code: rapid.SampledFrom([]int{500, 502, 550, 552, 554}).Draw(t, label+"-5yz"), Text: "5.5.0 no"}
	case 2:
		return refsmtp.Outcome{Kind: "drop"}
	default:
		return refsmtp.Outcome{Kind: "dropafter", Code: 421, Text: "4.3.2 closing"}
	}
}

func c04GenCfg(t *rapid.T) (smtpCfg, []string, []string) {
	var caps []string
	for _, k := range c04AllCaps {
		if rapid.Bool().Draw(t, "cap-"+k) {
			caps = append(caps, k)
		}
	}
	cfg := smtpCfg{TLS: rapid.SampledFrom([]string{"none", "none", "opportunistic", "mandatory"}).Draw(t, "tls")}
	if cfg.TLS == "mandatory" && !containsFold(caps, "STARTTLS") && rapid.IntRange(0, 3).Draw(t, "force-starttls") != 0 {
		caps = append(caps, "STARTTLS")
	}
	var capsTLS []string
	if containsFold(caps, "STARTTLS") && cfg.TLS != "none" && rapid.Bool().Draw(t, "different-caps-after-tls") {
		capsTLS = []string{}
		for _, k := range c04AllCaps {
			if k != "STARTTLS" && rapid.Bool().Draw(t, "captls-"+k) {
				capsTLS = append(capsTLS, k)
			}
		}
	}
	// WithoutNoop: the connection check before a send does not talk to the server
	cfg.NoNoop = rapid.IntRange(0, 4).Draw(t, "nonoop") == 0
	if rapid.IntRange(0, 3).Draw(t, "auth") == 0 {
		cfg.Auth = rapid.SampledFrom([]string{"PLAIN-NOENC", "LOGIN-NOENC"}).Draw(t, "authtype")
		cfg.User, cfg.Pass = "user", "secretpw"
	}
	switch rapid.IntRange(0, 3).Draw(t, "dsn") {
	case 1:
		cfg.DSN = "default"
	case 2:
		cfg.DSN = "custom"
		cfg.DSNRet = rapid.SampledFrom([]string{"", "FULL", "HDRS"}).Draw(t, "ret")
		switch rapid.IntRange(0, 3).Draw(t, "notifykind") {
		case 0:
			cfg.DSNNotify = []string{"NEVER"}
		case 1:
			cfg.DSNNotify = []string{"SUCCESS", "FAILURE", "DELAY"}
		case 2:
			cfg.DSNNotify = []string{"DELAY"}
		}
		if cfg.DSNRet == "" && len(cfg.DSNNotify) == 0 {
			cfg.DSNRet = "HDRS"
		}
	}
	return cfg, caps, capsTLS
}

func c04Gen(t *rapid.T) c04Case {
	cfg, caps, capsTLS := c04GenCfg(t)
	c := c04Case{Cfg: cfg, Caps: caps, CapsTLS: capsTLS, DialAndSend: rapid.Bool().Draw(t, "dialandsend"), Prior: rapid.IntRange(0, 3).Draw(t, "prior") == 0}
	n := rapid.IntRange(1, 3).Draw(t, "nmsgs")
	for i := 0; i < n; i++ {
		c.Msgs = append(c.Msgs, c04Msg{NRcpt: rapid.SampledFrom([]int{1, 1, 2, 2, 3, 3, 3, 0}).Draw(t, "nrcpt"), Enc: rapid.SampledFrom([]string{"quoted-printable", "base64", "8bit"}).Draw(t, "enc"), Unsignable: rapid.IntRange(0, 11).Draw(t, "unsignable") == 0})
	}
	// candidate step ids
	var steps []string
	steps = append(steps, "greet", "ehlo#1", "helo#1", "starttls", "ehlo#2", "auth#1", "noop#1", "noop#2", "noop#3", "rset#1", "rset#2", "rset#3", "rsetabandon#1", "rsetabandon#1", "rsetabandon#2", "quit")
	for m := 1; m <= n; m++ {
		steps = append(steps, fmt.Sprintf("mail#%d", m), fmt.Sprintf("data#%d", m), fmt.Sprintf("eod#%d", m))
		for r := 1; r <= 3; r++ {
			steps = append(steps, fmt.Sprintf("rcpt#%d.%d", m, r))
		}
	}
	nf := rapid.SampledFrom([]int{0, 1, 1, 1, 2, 2, 3, 5}).Draw(t, "nfaults")
	c.Steps = map[string]refsmtp.Outcome{}
	for i := 0; i < nf; i++ {
		st := rapid.SampledFrom(steps).Draw(t, "faultstep")
		c.Steps[st] = c04Outcome(t, "fault")
	}
	// one plain-text case in 24: an impatient client (80 ms) and a server that answers one command
	// positively but late (100..200 ms: within or beyond twice the time-out): whatever the client does after its time-out, it must not get out of step
	if cfg.TLS == "none" && rapid.IntRange(0, 23).Draw(t, "late") == 0 {
		c.Cfg.TimeoutMS = 80
		var cand []string
		for m := 1; m <= n; m++ {
			cand = append(cand, fmt.Sprintf("mail#%d", m), fmt.Sprintf("rcpt#%d.1", m), fmt.Sprintf("rcpt#%d.2", m), fmt.Sprintf("data#%d", m), fmt.Sprintf("eod#%d", m))
		}
		cand = append(cand, "noop#1", "noop#2", "rset#1")
		c.Steps[rapid.SampledFrom(cand).Draw(t, "latestep")] = refsmtp.Outcome{Kind: "late", DelayMS: rapid.SampledFrom([]int{100, 120, 120, 150, 200}).Draw(t, "latems")}
	}
	return c
}

func c04Describe() {
	rec := core.Rec("C04")
	rec.Rule = "sessions of the real Client against the strict reference server (own RFC 5321 command parser + transaction automaton) over in-memory connections. Random part: rapid draws the advertised capability subset of {8BITMIME, SMTPUTF8, DSN, ENHANCEDSTATUSCODES, STARTTLS, AUTH} (optionally a different set after STARTTLS), TLS policy, AUTH on/off, DSN off/WithDSN/custom RET+NOTIFY, 1..3 messages x 1..3 recipients with QP/base64/8bit encoding, Send on a dialled client or DialAndSend, one case in four as the SECOND connection of a Client whose first connection (dial + close) met a server advertising every extension, 0..5 non-ok replies (4yz, 5yz, drop, 421+close) at drawn step ids, messages without any recipient and messages whose rendering fails after DATA was accepted (before the first byte) in the batch, and (one plain-text case in 24) a client with an 80 ms time-out facing one positive reply that arrives 100..200 ms late. " +
		"Enumerated part (TestC04Enum): for every capability subset (64; 8 in quick) x 2 client configurations x batch 2x2, the fault-free run is recorded and then EVERY step id it contains is replaced by each of {4yz, 5yz, drop} (all <= 1-fault scripts), and every rejected MAIL/RCPT/DATA combined with a refused abandoning RSET; thorough additionally all 2-fault scripts for four capability sets. " +
		"Oracle: no automaton violation (bytes before greeting, command before EHLO, nested MAIL, RCPT without MAIL, DATA without or after a rejected recipient, unadvertised or mis-formed ESMTP parameter, pipelining, malformed command), no MAIL for an 8bit message without 8BITMIME, RET/NOTIFY exactly as configured, and the reply tag quoted by each SendError belongs to the command kind and transaction named by its Reason. " +
		"Non-trivial: >= 1 non-ok reply, or a capability set that suppresses a configured parameter. Distinct by (capabilities, config, batch, fault script)."
	rec.Assumptions = []string{"pipelining is detected when the next command arrives in the same read as the previous one (in-memory transport)", "a watchdog time-out marks a session inconclusive (counted), never a violation"}
}

func TestC04(t *testing.T) {
	c04Describe()
	core.Prop[c04Case]{ID: "C04", Test: "TestC04", Gen: c04Gen, Run: c04Run}.Check(t)
}

// TestC04Enum: all scripts with at most one non-ok reply at every step id that the fault-free
// session of a configuration contains.
func TestC04Enum(t *testing.T) {
	if core.ReplayArg != "" {
		t.Skip()
	}
	c04Describe()
	p := core.Prop[c04Case]{ID: "C04", Test: "TestC04", Run: c04Run}
	nSets := 64
	outcomes := []refsmtp.Outcome{
		{Kind: "reply", Code: 451, Text: "4.3.0 try later"},
		{Kind: "reply", Code: 554, Text: "5.5.0 no"},
		{Kind: "drop"},
	}
	idx := 0
	for set := 0; set < nSets; set++ {
		if !core.Thorough() && set%8 != (core.Seed%8+8)%8 {
			continue
		}
		var caps []string
		for b, k := range c04AllCaps {
			if set&(1<<b) != 0 {
				caps = append(caps, k)
			}
		}
		for _, cfg := range []smtpCfg{
			{TLS: "none", DSN: "default"},
			{TLS: "opportunistic", Auth: "PLAIN-NOENC", User: "user", Pass: "secretpw", DSN: "custom", DSNRet: "HDRS", DSNNotify: []string{"NEVER"}},
		} {
			idx++
			if idx%core.Shards != core.Shard {
				continue
			}
			base := c04Case{Cfg: cfg, Caps: caps, Msgs: []c04Msg{{NRcpt: 2, Enc: "quoted-printable"}, {NRcpt: 2, Enc: "8bit"}}, DialAndSend: set%2 == 0}
			out, hv := c04Exec(&base)
			if hv != nil || out.sess == nil {
				t.Fatalf("HARNESS-ERROR: fault-free run failed: %v", hv)
			}
			if v := p.RunOne(base); v != nil {
				t.Fatalf("VIOLATION-DETAIL property=C04 %s", v)
			}
			steps := out.sess.Steps
			for _, st := range steps {
				for _, o := range outcomes {
					c := base
					c.Steps = map[string]refsmtp.Outcome{st: o}
					core.Rec("C04").AddExtra("enumerated_one_fault_scripts", 1)
					if v := p.RunOne(c); v != nil {
						t.Fatalf("VIOLATION-DETAIL property=C04 %s", v)
					}
				}
			}
			// the failure-then-failed-RSET pairs: a rejected MAIL/RCPT/DATA whose abandoning RSET is refused too
			for _, st := range steps {
				if !(strings.HasPrefix(st, "mail#") || strings.HasPrefix(st, "rcpt#") || strings.HasPrefix(st, "data#")) {
					continue
				}
				for _, o1 := range outcomes[:2] {
					for _, o2 := range outcomes {
						c := base
						c.Steps = map[string]refsmtp.Outcome{st: o1, "rsetabandon#1": o2}
						core.Rec("C04").AddExtra("enumerated_fault_plus_failed_rset_scripts", 1)
						if v := p.RunOne(c); v != nil {
							t.Fatalf("VIOLATION-DETAIL property=C04 %s", v)
						}
					}
				}
			}
			if core.Thorough() && (set == 0 || set == 63 || set == 0b000101 || set == 0b110010) {
				for i, s1 := range steps {
					for _, s2 := range steps[i+1:] {
						for _, o1 := range outcomes[:2] {
							for _, o2 := range outcomes {
								c := base
								c.Steps = map[string]refsmtp.Outcome{s1: o1, s2: o2}
								core.Rec("C04").AddExtra("enumerated_two_fault_scripts", 1)
								if v := p.RunOne(c); v != nil {
									t.Fatalf("VIOLATION-DETAIL property=C04 %s", v)
								}
							}
						}
					}
				}
			}
		}
	}
}
