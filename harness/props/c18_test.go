package props

import (
	"bytes"
	"fmt"
	"strings"
	"testing"

	"pgregory.net/rapid"

	"verif/harness/core"
	"verif/harness/gen"
	"verif/harness/mimeread"
	"verif/harness/oracle"
)

// C18 — generated output obeys Internet-message line discipline.

type c18Case struct {
	Spec gen.MsgSpec `json:"spec"`
	// AltChunks is a second chunk plan applied to every producer for the metamorphic comparison.
	AltChunks []int `json:"alt_chunks,omitempty"`
	// FailBefore > 0: before the judged render, ANOTHER message (quoted-printable body and an
	// attachment) is rendered into a sink that fails after that many bytes, as a failed delivery
	// earlier in the same process would.
	FailBefore int `json:"fail_before,omitempty"`
}

func c18Render(spec *gen.MsgSpec) ([]byte, *gen.Built, error) {
	b, err := gen.Build(spec, env)
	if err != nil {
		return nil, nil, err
	}
	var buf bytes.Buffer
	if _, err := b.Msg.WriteTo(&buf); err != nil {
		return nil, b, fmt.Errorf("render: %w", err)
	}
	return buf.Bytes(), b, nil
}

func c18Run(c c18Case) []*core.Violation {
	rec := core.Rec("C18")
	if c.FailBefore > 0 {
		subj := "an earlier message"
		other := gen.MsgSpec{Encoding: "quoted-printable", FixedDate: true, From: "a@verif.example", To: []string{"b@verif.example"}, Subject: &subj,
			Parts:       []gen.PartSpec{{CType: "text/plain", Content: []byte(strings.Repeat("EARLIER-MESSAGE-TEXT that must never show up anywhere else ", 12)), Via: "string"}},
			Attachments: []gen.FileSpec{{Name: "earlier.bin", Content: bytes.Repeat([]byte("EARLIERFILE"), 40), Source: "reader"}}}
		if ob, oerr := gen.Build(&other, env); oerr == nil {
			_, _ = ob.Msg.WriteTo(&faultSink{limit: c.FailBefore, partial: true})
		}
	}
	out, b, err := c18Render(&c.Spec)
	if b == nil {
		rec.Skip()
		return nil
	}
	if err != nil {
		return []*core.Violation{core.V("render-error", "%v", err)}
	}
	root := mimeread.Parse(out)
	var vs []*core.Violation
	if c.FailBefore > 0 && (bytes.Contains(out, []byte("EARLIER-MESSAGE-TEXT")) || bytes.Contains(out, []byte("EARLIERFILE"))) {
		vs = append(vs, core.V("foreign-content", "the output contains text of a message that was rendered (and failed) earlier in the same process"))
	}
	for _, p := range root.AllProblems() {
		vs = append(vs, core.V("structure", "%s", p))
	}
	longParts := 0
	for _, li := range root.Lint() {
		switch li.Kind {
		case "hdr-long":
			if !li.Foldable {
				rec.AddExtra("long_header_lines_single_token", 1)
				continue
			}
			if li.Depth >= 1 {
				longParts++
				vs = append(vs, core.V("part-header-unfolded", "MIME part header line of %d characters with a folding opportunity at depth %d: %q", li.Length, li.Depth, clipS(li.Line)))
			} else {
				vs = append(vs, core.V("header-line-too-long", "top-level header line of %d characters with a folding opportunity: %q", li.Length, clipS(li.Line)))
			}
		case "body-long":
			vs = append(vs, core.V("body-line-too-long", "%s line of %d characters at depth %d: %q", li.Where, li.Length, li.Depth, li.Line))
		default:
			vs = append(vs, core.V(li.Kind, "%s at depth %d in %s: %q", li.Kind, li.Depth, li.Where, li.Line))
		}
	}
	// folded fields unfold to the value that was set
	if c.Spec.Subject != nil {
		if all := root.All("Subject"); len(all) == 1 {
			dec, _ := mimeread.DecodeWords(all[0])
			if trimWS(dec) != trimWS(*c.Spec.Subject) {
				vs = append(vs, core.V("unfold-mismatch", "Subject unfolds/decodes to %q, %q was set", clipS(dec), clipS(*c.Spec.Subject)))
			}
		} else {
			vs = append(vs, core.V("unfold-mismatch", "%d Subject fields", len(all)))
		}
	}
	for _, h := range c.Spec.Headers {
		all := root.All(h.Name)
		if len(all) != 1 {
			vs = append(vs, core.V("unfold-mismatch", "%d %s fields", len(all), h.Name))
			continue
		}
		dec, _ := mimeread.DecodeWords(all[0])
		want := strings.Join(h.Values, ", ")
		if h.Preformat {
			// a value the caller folded itself (CRLF + white space): written as it is, so it unfolds to
			// the value without its line breaks
			dec, want = all[0], strings.ReplaceAll(h.Values[0], "\r\n", "")
		}
		if trimWS(dec) != trimWS(want) {
			vs = append(vs, core.V("unfold-mismatch", "%s unfolds/decodes to %q, %q was set", h.Name, clipS(dec), clipS(want)))
		}
	}
	for _, pair := range []struct {
		field string
		want  []string
	}{{"To", c.Spec.To}, {"Cc", c.Spec.Cc}} {
		if len(pair.want) == 0 {
			continue
		}
		all := root.All(pair.field)
		if len(all) != 1 {
			vs = append(vs, core.V("unfold-mismatch", "%d %s fields", len(all), pair.field))
			continue
		}
		boxes, err := mimeread.ParseAddressList(all[0])
		if err != nil || len(boxes) != len(pair.want) {
			vs = append(vs, core.V("unfold-mismatch", "%s unfolds to %q: %d mailboxes (err %v), expected %d", pair.field, clipS(all[0]), len(boxes), err, len(pair.want)))
			continue
		}
		for i, bx := range boxes {
			wb, _ := mimeread.ParseAddressList(pair.want[i])
			if len(wb) != 1 || wb[0].Addr != bx.Addr || oracle.NormWS(wb[0].Name) != oracle.NormWS(bx.Name) {
				vs = append(vs, core.V("unfold-mismatch", "%s mailbox %d unfolds to %+v, %q was set", pair.field, i, bx, pair.want[i]))
			}
		}
	}
	// leaves must still carry the content (and names/descriptions unfold to what was set)
	if len(vs) == 0 || longParts == len(vs) {
		vs = append(vs, oracle.CompareLeaves(root, b.Leaves, len(c.Spec.Parts), len(c.Spec.Embeds), len(c.Spec.Attachments), oracle.LeafOpts{})...)
	}
	// metamorphic: the output does not depend on how producers chunk their writes
	chunked := false
	alt := c.Spec
	alt.Parts = append([]gen.PartSpec{}, c.Spec.Parts...)
	alt.Embeds = append([]gen.FileSpec{}, c.Spec.Embeds...)
	alt.Attachments = append([]gen.FileSpec{}, c.Spec.Attachments...)
	for i := range alt.Parts {
		if alt.Parts[i].Via == "writer" {
			alt.Parts[i].Prod.Chunks = c.AltChunks
			chunked = true
		}
	}
	for i := range alt.Embeds {
		if alt.Embeds[i].Source == "writer" {
			alt.Embeds[i].Prod.Chunks = c.AltChunks
			chunked = true
		}
	}
	for i := range alt.Attachments {
		if alt.Attachments[i].Source == "writer" {
			alt.Attachments[i].Prod.Chunks = c.AltChunks
			chunked = true
		}
	}
	if chunked {
		out2, _, err := c18Render(&alt)
		if err != nil {
			vs = append(vs, core.V("render-error", "alternative chunking: %v", err))
		} else {
			l1, l2 := root.Leaves(), mimeread.Parse(out2).Leaves()
			if len(l1) != len(l2) {
				vs = append(vs, core.V("chunking-dependent", "chunk plan %v gives %d leaves, plan %v gives %d", c.AltChunks, len(l2), "spec", len(l1)))
			} else {
				for i := range l1 {
					if !bytes.Equal(l1[i].Raw, l2[i].Raw) {
						vs = append(vs, core.V("chunking-dependent", "leaf %d differs between two chunkings of the same content (alt plan %v): %q vs %q", i, c.AltChunks, clipS(string(l1[i].Body)), clipS(string(l2[i].Body))))
						break
					}
				}
			}
		}
	}
	// evidence
	nt := chunked
	for _, l := range b.Leaves {
		if (l.CTE == "base64" && len(l.Content) > 57) || (l.CTE == "quoted-printable" && len(l.Content) > 76) {
			nt = true
		}
		rec.Class("cte:" + l.CTE)
	}
	longest := 0
	for _, s := range c18Texts(&c.Spec) {
		for _, w := range strings.Fields(s) {
			if len(w) > longest {
				longest = len(w)
			}
		}
		if len(s) > 60 {
			nt = true
		}
	}
	if longest > 60 {
		rec.Class("word>60")
	}
	if chunked {
		rec.Class("chunked")
	}
	if nt {
		rec.NonTrivial(core.Join(c.Spec.ShapeKey(), longest/10, len(c.Spec.To), fmt.Sprint(c.AltChunks), c18ChunkKey(&c.Spec)))
		rec.Sample(fmt.Sprintf("%d/%v", len(b.Leaves), chunked), map[string]interface{}{"shape": c.Spec.ShapeKey(), "longest_word": longest, "to": len(c.Spec.To), "alt_chunks": c.AltChunks, "bytes": len(out)})
	}
	return vs
}

// trimWS removes leading and trailing blanks only: inside the value every blank has to survive
// folding and unfolding (C18 does not normalise whitespace the way C02 does).
func trimWS(s string) string { return strings.Trim(s, " \t") }

func c18ChunkKey(s *gen.MsgSpec) string {
	var sb strings.Builder
	for _, p := range s.Parts {
		fmt.Fprint(&sb, p.Prod.Chunks)
	}
	for _, f := range s.Embeds {
		fmt.Fprint(&sb, f.Prod.Chunks)
	}
	for _, f := range s.Attachments {
		fmt.Fprint(&sb, f.Prod.Chunks)
	}
	return sb.String()
}

func c18Texts(s *gen.MsgSpec) []string {
	var out []string
	if s.Subject != nil {
		out = append(out, *s.Subject)
	}
	for _, h := range s.Headers {
		out = append(out, h.Values...)
	}
	out = append(out, s.To...)
	out = append(out, s.Cc...)
	for _, p := range s.Parts {
		out = append(out, p.Desc)
	}
	for _, f := range append(append([]gen.FileSpec{}, s.Embeds...), s.Attachments...) {
		out = append(out, f.Name, f.Desc)
	}
	return out
}

var c18Words = []string{"a", "of", "the", "word", "longer-word", "Grüße", "日本語", "x=y", "semi;colon", "(paren)", "<angle>", "q?mark", "under_score", "=?", "?=", "tab\tbed",
	"line\nbreak", "carriage\rreturn", "crlf\r\nX-C18-Injected: 1", "nul\x00byte", "%s%d"}

// c18Value draws a header value: words of length 0..300 separated by 1..80 blanks, optionally with
// leading/trailing blanks.
func c18Value(t *rapid.T, label string) string {
	n := rapid.IntRange(1, 25).Draw(t, label+"-n")
	var sb strings.Builder
	if rapid.IntRange(0, 5).Draw(t, label+"-lead") == 0 {
		sb.WriteString(" ")
	}
	for i := 0; i < n; i++ {
		if i > 0 {
			sb.WriteString(strings.Repeat(" ", rapid.SampledFrom([]int{1, 1, 1, 1, 1, 1, 2, 3, 5, 8, 12, 20, 40, 80}).Draw(t, label+"-sp")))
		}
		switch rapid.IntRange(0, 6).Draw(t, label+"-wk") {
		case 6:
			// one long blank-free word with punctuation inside (a List-Unsubscribe value, a URL with a query,
			// a semicolon separated list): there is no folding opportunity in it
			sb.WriteString(rapid.SampledFrom([]string{
				"<mailto:unsubscribe-0123456789abcdef@lists.verif.example?subject=unsubscribe>,<https://lists.verif.example/u/0123456789abcdef0123456789abcdef>",
				"https://verif.example/path/to/a/resource?with=a&long=query;and,commas,inside,the,value,that,goes,on,and,on,and,on",
				"a,b,c,d,e,f,g,h,i,j,k,l,m,n,o,p,q,r,s,t,u,v,w,x,y,z,a,b,c,d,e,f,g,h,i,j,k,l,m,n,o,p,q,r,s,t,u,v,w,x,y,z",
				"key=value;key2=value2;key3=value3;key4=value4;key5=value5;key6=value6;key7=value7;key8=value8",
				"(comment-like)(parentheses)(without)(any)(blank)(between)(them)(for)(more)(than)(seventy)(eight)(columns)",
			}).Draw(t, label+"-punct"))
		case 0:
			sb.WriteString(strings.Repeat(rapid.SampledFrom([]string{"x", "é", "0"}).Draw(t, label+"-ch"), rapid.SampledFrom([]int{0, 1, 20, 50, 60, 65, 70, 74, 75, 76, 77, 78, 79, 80, 120, 300}).Draw(t, label+"-wl")))
		default:
			sb.WriteString(rapid.SampledFrom(c18Words).Draw(t, label+"-w"))
		}
	}
	if rapid.IntRange(0, 5).Draw(t, label+"-trail") == 0 {
		sb.WriteString(" ")
	}
	return sb.String()
}

func c18Gen(t *rapid.T) c18Case {
	o := gen.GenOpts{
		Boundaries: true,
		Encodings:  []string{"quoted-printable", "base64", "8bit"}, MaxParts: 2, MaxEmbeds: 1, MaxAttach: 2, AllowNoBody: true,
		PartEncs: []string{"", "quoted-printable", "base64"}, FileEncs: []string{"", "base64"}, TextOnlyQP: true, Chunking: true,
		Sources: []string{"writer", "writer", "reader", "readseeker"}, Vias: []string{"writer", "writer", "string"},
	}
	spec := gen.Program(t, o)
	s := c18Value(t, "subject")
	spec.Subject = &s
	nh := rapid.IntRange(0, 2).Draw(t, "nheaders")
	for i := 0; i < nh; i++ {
		nv := rapid.IntRange(1, 3).Draw(t, "nvalues")
		var vals []string
		for j := 0; j < nv; j++ {
			vals = append(vals, c18Value(t, "hv"))
		}
		spec.Headers = append(spec.Headers, gen.HeaderSpec{Name: fmt.Sprintf("X-Long-%d", i), Values: vals})
	}
	if rapid.IntRange(0, 3).Draw(t, "preformatted") == 0 {
		// a header the caller has folded itself, the documented way (DKIM-Signature, List-Unsubscribe)
		n := rapid.IntRange(1, 6).Draw(t, "prelines")
		var sb strings.Builder
		for i := 0; i < n; i++ {
			if i > 0 {
				sb.WriteString(rapid.SampledFrom([]string{"\r\n ", "\r\n\t", "\r\n  "}).Draw(t, "prefold"))
			}
			sb.WriteString(rapid.SampledFrom([]string{"v=1; a=rsa-sha256; c=relaxed/relaxed;", "d=verif.example; s=sel;", "h=from:to:subject:date:message-id;", "bh=47DEQpj8HBSa+/TImW+5JCeuQeRkm5NMpJWZG3hSuFU=;", "<mailto:unsubscribe@verif.example?subject=unsubscribe>,", "<https://verif.example/u/0123456789abcdef>", "word"}).Draw(t, "preline"))
		}
		spec.Headers = append(spec.Headers, gen.HeaderSpec{Name: "X-Pre-Folded", Values: []string{sb.String()}, Preformat: true})
	}
	addrList := func(label string, max int) []string {
		n := rapid.IntRange(1, max).Draw(t, label+"-n")
		var out []string
		for i := 0; i < n; i++ {
			name := ""
			switch rapid.IntRange(0, 3).Draw(t, label+"-nk") {
			case 1:
				name = rapid.SampledFrom([]string{"Alice Example", "Bob", "Dr. Jörg Müller-Lüdenscheidt von und zu Hohenstein", "日本 太郎", "A Very Long Display Name That Goes On And On And On Until It Needs Folding Somewhere"}).Draw(t, label+"-name")
			case 2:
				name = strings.Repeat("n", rapid.SampledFrom([]int{10, 40, 70, 90}).Draw(t, label+"-nl"))
			}
			local := strings.Repeat("l", rapid.SampledFrom([]int{1, 8, 30, 60}).Draw(t, label+"-ll"))
			addr := fmt.Sprintf("%s%d@verif-%s.example", local, i, label)
			if name == "" {
				out = append(out, addr)
			} else {
				out = append(out, quoteName(name)+" <"+addr+">")
			}
		}
		return out
	}
	spec.To = addrList("to", 20)
	if rapid.Bool().Draw(t, "hascc") {
		spec.Cc = addrList("cc", 6)
	}
	longName := func(label string) string {
		return rapid.SampledFrom([]string{"short.txt", "a file name with several words in it and then some more words.txt", "Ein längerer Dateiname mit Umlauten und vielen Wörtern drin.pdf",
			strings.Repeat("n", 90) + ".bin", "日本語のとても長いファイル名がここにありますのでおりたたみが必要.dat"}).Draw(t, label)
	}
	longDesc := func(label string) string {
		if rapid.Bool().Draw(t, label+"-has") {
			return ""
		}
		return c18Value(t, label)
	}
	for i := range spec.Parts {
		spec.Parts[i].Desc = strings.TrimSpace(longDesc("pdesc"))
	}
	for i := range spec.Embeds {
		spec.Embeds[i].Name = longName("ename")
		spec.Embeds[i].Desc = strings.TrimSpace(longDesc("edesc"))
	}
	for i := range spec.Attachments {
		spec.Attachments[i].Name = longName("aname")
		spec.Attachments[i].Desc = strings.TrimSpace(longDesc("adesc"))
	}
	c := c18Case{Spec: *spec}
	if rapid.IntRange(0, 4).Draw(t, "failbefore") == 0 {
		c.FailBefore = rapid.SampledFrom([]int{300, 420, 460, 500, 600, 800, 1000, 1400}).Draw(t, "failbeforeat")
	}
	c.AltChunks = rapid.SampledFrom([][]int{nil, {1}, {2, 3, 5, 7, 11, 13}, {3}, {57}, {76}, {56}, {58}, {75}, {77}, {4}, {19, 57, 1}}).Draw(t, "altchunks")
	return c
}

func TestC18(t *testing.T) {
	rec := core.Rec("C18")
	rec.Rule = "rapid draws a message program with header values made of 1..25 words of 0..300 characters separated by 1..80 blanks (Subject, 0..2 generic headers with 1..3 values, one case in four a PREFORMATTED header that the caller folded itself with CRLF + blank/TAB, To lists of 1..20 and Cc lists of 1..6 mailboxes with long display names/local parts, long multi-word file names, part and file descriptions), " +
		"QP/base64/8bit bodies and files with contents around the 57/76-byte wrapping points, and producers that chunk their writes (1-byte, primes, 3/57/76 +-1, random); a second chunk plan is drawn for the metamorphic comparison; header words occasionally contain LF, CR, CRLF + field, NUL; one case in five is preceded by the failed render of another message in the same process. " +
		"Oracle on raw lines of WriteTo's output: CRLF only, no bare CR/LF in header sections and QP/base64 bodies; encoded body lines <= 76; header lines > 78 only if they have no folding opportunity; Subject/generic fields unfold and decode to exactly what was set (only leading/trailing blanks trimmed), address fields to the mailboxes set; leaves decode to the supplied content; every leaf is byte-identical under the two chunkings. " +
		"Non-trivial: a value longer than 60 bytes, content longer than one encoded line, or a chunked producer. Distinct by (shape key, longest word decile, number of recipients, chunk plans)."
	rec.Assumptions = []string{"a header line has a folding opportunity iff, after the field name (or the leading blank of a continuation), it contains a blank between non-blank text", "8bit/7bit bodies are caller content and carry no line rules"}
	core.Prop[c18Case]{ID: "C18", Test: "TestC18", Gen: c18Gen, Run: c18Run}.Check(t)
}
