package oracle

import (
	"fmt"
	"sort"
	"strings"

	"verif/harness/core"
	"verif/harness/gen"
	"verif/harness/mimeread"
)

// FieldExpect describes which fields a header section must contain (canonical lower-case names).
type FieldExpect map[string]int

func (f FieldExpect) add(names ...string) {
	for _, n := range names {
		f[strings.ToLower(n)]++
	}
}

// TopExtras carries the message-level settings that add top-level fields beyond MsgSpec.
type TopExtras struct {
	Fields []string // additional field names expected once each (Organization, Importance, ...)
	NoFrom bool
}

func leafFields(l gen.Leaf) FieldExpect {
	f := FieldExpect{}
	f.add("Content-Type", "Content-Transfer-Encoding")
	if l.Kind != "part" {
		f.add("Content-Disposition")
		if l.CID != "" {
			f.add("Content-ID")
		}
	}
	if l.Desc != "" {
		f.add("Content-Description")
	}
	return f
}

// ExpectedSections returns the expected field multiset of the top-level section and of every
// entity below it in document order (pre-order, multiparts included).
func ExpectedSections(spec *gen.MsgSpec, leaves []gen.Leaf, x TopExtras) []FieldExpect {
	top := FieldExpect{}
	top.add("Date", "MIME-Version", "Message-ID")
	if !spec.NoUA {
		top.add("User-Agent", "X-Mailer")
	}
	if spec.From != "" && !x.NoFrom {
		top.add("From")
	}
	if len(spec.To) > 0 {
		top.add("To")
	}
	if len(spec.Cc) > 0 {
		top.add("Cc")
	}
	if spec.Subject != nil {
		top.add("Subject")
	}
	for _, h := range spec.Headers {
		top.add(h.Name)
	}
	top.add(x.Fields...)
	np, ne, na := len(spec.Parts), len(spec.Embeds), len(spec.Attachments)
	shape := gen.ExpectedShape(np, ne, na)
	var out []FieldExpect
	if shape == "L" {
		for k, v := range leafFields(leaves[0]) {
			top[k] += v
		}
		return []FieldExpect{top}
	}
	top.add("Content-Type")
	out = append(out, top)
	// walk the shape string: every "name(" below the top is a nested multipart, every L a leaf
	li := 0
	first := true
	for i := 0; i < len(shape); i++ {
		switch {
		case shape[i] == 'L':
			out = append(out, leafFields(leaves[li]))
			li++
		case shape[i] == '(':
			if first {
				first = false
			} else {
				out = append(out, FieldExpect{"content-type": 1})
			}
		}
	}
	return out
}

// CompareSections checks the field multiset of every header section.
func CompareSections(root *mimeread.Entity, want []FieldExpect) []*core.Violation {
	var vs []*core.Violation
	var ents []*mimeread.Entity
	root.Walk(func(e *mimeread.Entity) { ents = append(ents, e) })
	if len(ents) != len(want) {
		return []*core.Violation{core.V("section-count", "message has %d header sections, expected %d (shape %s)", len(ents), len(want), root.Shape())}
	}
	for i, e := range ents {
		got := FieldExpect{}
		for _, f := range e.Fields {
			got[strings.ToLower(f.Name)]++
		}
		var names []string
		seen := map[string]bool{}
		for k := range got {
			if !seen[k] {
				names = append(names, k)
				seen[k] = true
			}
		}
		for k := range want[i] {
			if !seen[k] {
				names = append(names, k)
				seen[k] = true
			}
		}
		sort.Strings(names)
		for _, k := range names {
			g, w := got[k], want[i][k]
			switch {
			case g > w && w == 0:
				vs = append(vs, core.V("extra-field", "section %d (depth %d, %s): unexpected field %q (value %q)", i, e.Depth, e.MediaType, k, clipField(e, k)))
			case g > w:
				vs = append(vs, core.V("duplicate-field", "section %d (depth %d): field %q occurs %d times, expected %d", i, e.Depth, k, g, w))
			case g < w:
				vs = append(vs, core.V("missing-field", "section %d (depth %d, %s): field %q occurs %d times, expected %d", i, e.Depth, e.MediaType, k, g, w))
			}
		}
		if !e.HasBlankLine && len(e.Body) > 0 {
			vs = append(vs, core.V("no-blank-line", "section %d: header section not terminated by an empty line", i))
		}
	}
	return vs
}

func clipField(e *mimeread.Entity, name string) string {
	v, _ := e.Get(name)
	if len(v) > 80 {
		return v[:80] + "..."
	}
	return v
}

// Describe renders a multiset for messages.
func (f FieldExpect) String() string {
	var ks []string
	for k, v := range f {
		ks = append(ks, fmt.Sprintf("%s*%d", k, v))
	}
	sort.Strings(ks)
	return strings.Join(ks, ",")
}
