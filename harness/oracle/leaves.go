// Package oracle holds comparison predicates shared by several properties.
package oracle

import (
	"bytes"
	"fmt"
	"io"
	"mime"
	"mime/multipart"
	"net/mail"
	"strings"

	"verif/harness/core"
	"verif/harness/gen"
	"verif/harness/mimeread"
)

// CanonLF rewrites bare LF to CRLF (the only thing forgiven for quoted-printable text).
func CanonLF(b []byte) []byte {
	var out bytes.Buffer
	for i, c := range b {
		if c == '\n' && (i == 0 || b[i-1] != '\r') {
			out.WriteByte('\r')
		}
		out.WriteByte(c)
	}
	return out.Bytes()
}

// NormWS collapses runs of blanks/tabs to one blank and trims.
func NormWS(s string) string {
	return strings.Join(strings.FieldsFunc(s, func(r rune) bool { return r == ' ' || r == '\t' }), " ")
}

// TextKey classifies a free-text mismatch. When the decoded value differs from the string that
// was set exactly in that the encoded-word lookalikes contained in the set string got decoded
// (decoded == RFC2047-decode(want) != want), the string's printable-ASCII stretches were emitted
// verbatim and a reader decodes them: that class has its own key (known finding). Everything else
// keeps the base key.
func TextKey(base, raw, want, decoded string) string {
	if strings.Contains(want, "=?") && NormWS(decoded) != NormWS(want) {
		if dw, _ := mimeread.DecodeWords(want); NormWS(dw) == NormWS(decoded) {
			return "ew-lookalike-verbatim"
		}
	}
	return base
}

// LookalikeExpect computes what a reader decodes when every value that consists of printable
// ASCII (and tabs) only is emitted verbatim while all others are properly encoded.
func LookalikeExpect(values []string) string {
	var out []string
	for _, v := range values {
		verbatim := true
		for i := 0; i < len(v); i++ {
			if (v[i] < ' ' || v[i] > '~') && v[i] != '\t' {
				verbatim = false
				break
			}
		}
		if verbatim {
			d, _ := mimeread.DecodeWords(v)
			out = append(out, d)
		} else {
			out = append(out, v)
		}
	}
	return strings.Join(out, ", ")
}

func clipb(b []byte) string {
	if len(b) > 120 {
		return fmt.Sprintf("%q...(%d bytes)", b[:120], len(b))
	}
	return fmt.Sprintf("%q", b)
}

func firstDiff(a, b []byte) int {
	n := len(a)
	if len(b) < n {
		n = len(b)
	}
	for i := 0; i < n; i++ {
		if a[i] != b[i] {
			return i
		}
	}
	return n
}

// LeafOpts selects what CompareLeaves insists on.
type LeafOpts struct {
	// NoNames: do not compare file names (the caller checks them itself).
	NoNames bool
	// NoDesc: do not compare Content-Description / Content-ID.
	NoDesc bool
	// NoShape: do not insist on the mixed > related > alternative nesting.
	NoShape bool
	// NoFileCTE: do not compare the transfer encoding of files (only their decoded content).
	NoFileCTE bool
}

// CompareLeaves checks the reader's view of a rendered message against the model.
func CompareLeaves(root *mimeread.Entity, leaves []gen.Leaf, nParts, nEmbeds, nAttach int, o LeafOpts) []*core.Violation {
	var vs []*core.Violation
	for _, p := range root.AllProblems() {
		vs = append(vs, core.V("structure", "%s", p))
	}
	if len(vs) > 0 {
		return vs
	}
	if !o.NoShape {
		want := gen.ExpectedShape(nParts, nEmbeds, nAttach)
		if got := root.Shape(); got != want {
			vs = append(vs, core.V("shape", "nesting is %s, expected %s", got, want))
		}
	}
	// boundaries on nested levels must be distinct
	seen := map[string]bool{}
	root.Walk(func(e *mimeread.Entity) {
		if strings.HasPrefix(e.MediaType, "multipart/") {
			b := e.Params["boundary"]
			if seen[b] {
				vs = append(vs, core.V("boundary-reuse", "boundary %q used by more than one multipart", b))
			}
			seen[b] = true
		}
	})
	got := root.Leaves()
	if len(got) != len(leaves) {
		vs = append(vs, core.V("leaf-count", "reader finds %d leaves, expected %d (shape %s)", len(got), len(leaves), root.Shape()))
		return vs
	}
	for i, want := range leaves {
		e := got[i]
		where := fmt.Sprintf("leaf %d (%s)", i, want.Kind)
		if want.MediaType != "" {
			if e.MediaType != strings.ToLower(want.MediaType) {
				vs = append(vs, core.V("leaf-type", "%s: media type %q, expected %q", where, e.MediaType, want.MediaType))
			}
		} else if !validMediaType(e.MediaType) {
			vs = append(vs, core.V("leaf-type", "%s: media type %q is not a valid type/subtype", where, e.MediaType))
		}
		if want.Kind == "part" {
			if cs := e.Params["charset"]; !strings.EqualFold(cs, want.Charset) {
				vs = append(vs, core.V("leaf-charset", "%s: charset %q, expected %q", where, cs, want.Charset))
			}
		}
		if e.CTE != want.CTE && !(o.NoFileCTE && want.Kind != "part") {
			vs = append(vs, core.V("leaf-cte", "%s: content-transfer-encoding %q, expected %q", where, e.CTE, want.CTE))
		}
		if n := e.Count("Content-Transfer-Encoding"); n != 1 {
			vs = append(vs, core.V("leaf-cte", "%s: %d Content-Transfer-Encoding fields", where, n))
		}
		if n := e.Count("Content-Type"); n != 1 {
			vs = append(vs, core.V("leaf-type", "%s: %d Content-Type fields", where, n))
		}
		// disposition / filename
		cd, hasCD := e.Get("Content-Disposition")
		if want.Disposition == "" {
			if hasCD {
				vs = append(vs, core.V("leaf-disposition", "%s: unexpected Content-Disposition %q", where, cd))
			}
		} else {
			if !hasCD {
				vs = append(vs, core.V("leaf-disposition", "%s: Content-Disposition missing", where))
			} else {
				disp, params, err := mimeread.ParseParamField(cd)
				if err != nil {
					vs = append(vs, core.V("leaf-disposition", "%s: Content-Disposition %q does not parse: %v", where, cd, err))
				} else {
					if strings.ToLower(disp) != want.Disposition {
						vs = append(vs, core.V("leaf-disposition", "%s: disposition %q, expected %q", where, disp, want.Disposition))
					}
					if !o.NoNames {
						fn, _ := mimeread.DecodeWords(params["filename"])
						if fn != want.Filename {
							vs = append(vs, core.V(TextKey("leaf-filename", params["filename"], want.Filename, fn), "%s: filename %q decodes to %q, expected %q", where, params["filename"], fn, want.Filename))
						}
						// the RFC 2231 / RFC 6266 form of the parameter, which readers that know it prefer
						if xfn, ok := mimeread.ExtendedParam(params, "filename"); ok && xfn != want.Filename {
							vs = append(vs, core.V("leaf-filename", "%s: the extended parameter filename* (in %q) denotes %q, expected %q", where, cd, xfn, want.Filename))
						}
						if xnm, ok := mimeread.ExtendedParam(e.Params, "name"); ok && xnm != want.Filename {
							vs = append(vs, core.V("leaf-filename", "%s: the extended parameter name* of Content-Type denotes %q, expected %q", where, xnm, want.Filename))
						}
						nm, _ := mimeread.DecodeWords(e.Params["name"])
						if nm != want.Filename {
							vs = append(vs, core.V(TextKey("leaf-filename", e.Params["name"], want.Filename, nm), "%s: Content-Type name %q decodes to %q, expected %q", where, e.Params["name"], nm, want.Filename))
						}
					}
				}
			}
		}
		if !o.NoDesc {
			d, hasD := e.Get("Content-Description")
			if want.Desc == "" && hasD {
				vs = append(vs, core.V("leaf-description", "%s: unexpected Content-Description %q", where, d))
			}
			if want.Desc != "" {
				dd, _ := mimeread.DecodeWords(d)
				if !hasD || NormWS(dd) != NormWS(want.Desc) {
					vs = append(vs, core.V(TextKey("leaf-description", d, want.Desc, dd), "%s: Content-Description %q decodes to %q (present=%v), expected %q", where, d, dd, hasD, want.Desc))
				}
			}
			cid, hasCID := e.Get("Content-ID")
			if want.CID == "" && hasCID {
				vs = append(vs, core.V("leaf-cid", "%s: unexpected Content-ID %q", where, cid))
			}
			if want.CID != "" {
				dc, _ := mimeread.DecodeWords(cid)
				if !hasCID || NormWS(dc) != NormWS(want.CID) {
					vs = append(vs, core.V(TextKey("leaf-cid", cid, want.CID, dc), "%s: Content-ID %q (present=%v), expected %q", where, cid, hasCID, want.CID))
				}
			}
		}
		// content
		dec, probs := e.Decoded()
		for _, p := range probs {
			vs = append(vs, core.V("leaf-encoding", "%s: %s", where, p))
		}
		exp := want.Content
		if e.CTE == "quoted-printable" && want.CTE == "quoted-printable" {
			exp = CanonLF(exp)
		}
		if !bytes.Equal(dec, exp) {
			k := firstDiff(dec, exp)
			vs = append(vs, core.V("leaf-content", "%s: decoded content differs at byte %d: got %s, expected %s (cte %s)", where, k, clipb(dec), clipb(exp), want.CTE))
		}
	}
	return vs
}

func validMediaType(mt string) bool {
	i := strings.IndexByte(mt, '/')
	if i <= 0 || i == len(mt)-1 {
		return false
	}
	for _, c := range []byte(mt) {
		if c <= 32 || c >= 127 || strings.IndexByte("()<>@,;:\\\"[]?=", c) >= 0 {
			return false
		}
	}
	return strings.Count(mt, "/") == 1
}

// StdlibLeaves reads the message with net/mail + mime/multipart and returns the decoded-raw
// bodies (transfer encoding NOT undone except what multipart.Reader does on its own) of the
// leaves; used as a second opinion on the structure found by mimeread.
type StdLeaf struct {
	MediaType string
	Body      []byte
	CTE       string
}

// StdlibLeaves walks the message with the standard library readers.
func StdlibLeaves(data []byte) ([]StdLeaf, error) {
	m, err := mail.ReadMessage(bytes.NewReader(data))
	if err != nil {
		return nil, err
	}
	return stdWalk(m.Header.Get("Content-Type"), m.Header.Get("Content-Transfer-Encoding"), m.Body)
}

func stdWalk(ct, cte string, body io.Reader) ([]StdLeaf, error) {
	mt, params, err := mime.ParseMediaType(ct)
	if err != nil {
		return nil, fmt.Errorf("content type %q: %w", ct, err)
	}
	if strings.HasPrefix(mt, "multipart/") {
		mr := multipart.NewReader(body, params["boundary"])
		var out []StdLeaf
		for {
			p, err := mr.NextRawPart()
			if err == io.EOF {
				return out, nil
			}
			if err != nil {
				return nil, err
			}
			sub, err := stdWalk(p.Header.Get("Content-Type"), p.Header.Get("Content-Transfer-Encoding"), p)
			if err != nil {
				return nil, err
			}
			out = append(out, sub...)
		}
	}
	b, err := io.ReadAll(body)
	if err != nil {
		return nil, err
	}
	return []StdLeaf{{MediaType: mt, Body: b, CTE: strings.ToLower(cte)}}, nil
}

// CrossCheck compares mimeread's leaves with the stdlib's. A non-empty result means the two
// readers disagree, which is treated as a harness problem, not as a violation.
func CrossCheck(root *mimeread.Entity, data []byte) string {
	std, err := StdlibLeaves(data)
	if err != nil {
		return "stdlib reader failed: " + err.Error()
	}
	mine := root.Leaves()
	if len(std) != len(mine) {
		return fmt.Sprintf("stdlib finds %d leaves, mimeread %d", len(std), len(mine))
	}
	for i := range std {
		if std[i].MediaType != mine[i].MediaType {
			return fmt.Sprintf("leaf %d: stdlib type %q, mimeread %q", i, std[i].MediaType, mine[i].MediaType)
		}
		if !bytes.Equal(std[i].Body, mine[i].Body) {
			return fmt.Sprintf("leaf %d: raw bodies differ (stdlib %s, mimeread %s)", i, clipb(std[i].Body), clipb(mine[i].Body))
		}
	}
	return ""
}
