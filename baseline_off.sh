#!/bin/bash
# Runs /repo's own test suite with the verification guard (build tag "verif") OFF and compares the
# set of passing tests with /root/.vp/BASELINE.json (stable_pass). Exit 0 iff no baseline test is lost.
export GOFLAGS=-mod=mod GOPROXY=off GOSUMDB=off GOTOOLCHAIN=local
OUT=$(mktemp -d)
trap 'rm -rf "$OUT"' EXIT
cd /repo || exit 2
cp go.sum "$OUT/go.sum.orig"
go test -json -vet=off -count=1 -timeout 25m ./... > "$OUT/run.json" 2> "$OUT/run.err"
cp "$OUT/go.sum.orig" go.sum
python3 - "$OUT/run.json" <<'PY'
import json, sys
passed, failed = set(), set()
for line in open(sys.argv[1], errors="replace"):
    line = line.strip()
    if not line.startswith("{"):
        continue
    try:
        ev = json.loads(line)
    except Exception:
        continue
    a, pkg, t = ev.get("Action"), ev.get("Package", ""), ev.get("Test")
    if t is None or a not in ("pass", "fail"):
        continue
    (passed if a == "pass" else failed).add(pkg + "::" + t)
passed -= failed
base = json.load(open("/root/.vp/BASELINE.json"))
stable = set(base["stable_pass"])
lost = sorted(stable - passed)
print(f"baseline_off: passed={len(passed)} failed={len(failed)} baseline={len(stable)} lost={len(lost)}")
for t in lost[:50]:
    print("LOST", t)
sys.exit(1 if lost else 0)
PY
