#!/bin/bash
# One-time offline build: compiles the harness against /repo so that later checks hit the build cache.
export GOFLAGS=-mod=mod GOPROXY=off GOSUMDB=off GOTOOLCHAIN=local
cd /verif/harness || exit 1
mkdir -p /verif/.cache/bin
go vet ./... || exit 1
# self-tests of the oracles themselves (RFC test vectors for SCRAM/PBKDF2, the RFC 2047 decoder against
# Go's encoders, the address parser against net/mail, a conversation with the reference SMTP server)
go test -count=1 ./mimeread ./refsasl ./refsmtp || exit 1
go test -c -tags verif -o /verif/.cache/bin/setup.test ./props || exit 1
rm -f /verif/.cache/bin/setup.test
echo "setup ok"
