#!/usr/bin/env python3
"""Builds /verif/seeded/README.md from the meta.json files written by seedeval.py."""
import glob, json, os, re
rows = []
for f in sorted(glob.glob("/verif/seeded/*/meta.json")):
    m = json.load(open(f))
    d = os.path.dirname(f)
    name = os.path.basename(d)
    needs = ""
    rp = os.path.join(d, "AGENT_README.md")
    if os.path.exists(rp):
        txt = open(rp, errors="replace").read()
        # first non-heading paragraph as a hint
        paras = [p.strip() for p in re.split(r"\n\s*\n", txt) if p.strip() and not p.strip().startswith("#")]
        needs = (paras[0] if paras else "")[:300].replace("\n", " ").replace("|", "/")
    own = m["property"] in m.get("caught_by", [])
    rows.append((name, m["property"], m.get("confirmed"), ", ".join(m.get("caught_by", [])) or "-", "yes" if own else "NO", ", ".join(m.get("inconclusive", [])) or "-", needs, m.get("note", "")))
out = ["# Seeded changes", "",
       "Each directory holds a change to wneessen/go-mail written by an independent sub-agent that saw only the text of one property (nothing from /verif): `patch.diff`, the agent's demonstration (`demo_test.go`), its `AGENT_README.md`, and `meta.json` written by `tools/seedeval.py` (patch applies and builds, the repository's suite loses no baseline test, the demonstration fails with the patch and passes without, and the result of every quick check with the patch applied - to /repo itself in rounds 1-5, to a scratch worktree of /repo's HEAD judged through `VERIF_REPO` from round 6 on; from round 6 on the other checks are only run when the property's own check stays silent, so the column of checks lists cross-catches only for those seeds). Seeds named `-r7a` / `-r8a` come from the two short rounds with one change per agent.",
       "", "| seed | property | confirmed | checks reporting VIOLATION | own check catches it | inconclusive | what it is (agent's words) | note |", "|---|---|---|---|---|---|---|---|"]
for r in rows:
    out.append("| %s | %s | %s | %s | %s | %s | %s | %s |" % r)
conf = [r for r in rows if r[2]]
out += ["", "%d seeded changes evaluated, %d confirmed; %d of the confirmed ones are caught by the check of the property they target, %d by at least one check." % (
    len(rows), len(conf), sum(1 for r in conf if r[4] == "yes"), sum(1 for r in conf if r[3] != "-"))]
open("/verif/seeded/README.md", "w").write("\n".join(out) + "\n")
print(out[-1])
