#!/usr/bin/env python3
"""Evaluates one seeded change produced by an independent sub-agent.

  tools/seedeval.py <worktree> <variant> <property> <port> [--checks C01,C02,...]

<worktree>/seed/<variant>/ holds patch.diff, demo_test.go (or demo.go) and README.md.
Steps: (1) in the scratch worktree: patch applies and builds, the repository's suite loses no
baseline test, the demonstration fails with the patch and passes without; (2) in /repo: apply the
patch, run the quick checks, revert; (3) store everything under /verif/seeded/<property>-<variant>/.
"""
import json, os, re, shutil, subprocess, sys, time

ROOT = os.path.dirname(os.path.dirname(os.path.abspath(__file__)))  # the (snapshot of) /verif the checks are run from
DEST = "/verif/seeded"
ENV = dict(os.environ, GOFLAGS="-mod=mod", GOPROXY="off", GOSUMDB="off", GOTOOLCHAIN="local")


def sh(cmd, cwd=None, env=None, timeout=1800):
    p = subprocess.run(cmd, shell=True, cwd=cwd, env=env or ENV, stdout=subprocess.PIPE, stderr=subprocess.STDOUT, text=True, timeout=timeout)
    return p.returncode, p.stdout


def suite_failures(wt, port):
    e = dict(ENV, TEST_BASEPORT=str(port), TEST_BASEPORT_SMTP=str(port + 1000))
    rc, out = sh("go test -p 1 -json -vet=off -count=1 ./...", cwd=wt, env=e, timeout=1500)
    passed, failed = set(), set()
    build_fail = False
    for line in out.splitlines():
        line = line.strip()
        if not line.startswith("{"):
            continue
        try:
            ev = json.loads(line)
        except Exception:
            continue
        a, pkg, t = ev.get("Action"), ev.get("Package", ""), ev.get("Test")
        if t is None:
            if a == "fail" and "build failed" in (ev.get("Output") or ""):
                build_fail = True
            continue
        if a == "pass":
            passed.add(pkg + "::" + t)
        elif a == "fail":
            failed.add(pkg + "::" + t)
    return passed - failed, failed, build_fail


def pkg_dir(demo_path):
    src = open(demo_path).read()
    m = re.search(r"^package\s+(\w+)", src, re.M)
    name = m.group(1) if m else "mail"
    return {"mail": ".", "mail_test": ".", "smtp": "smtp", "smtp_test": "smtp", "log": "log", "log_test": "log",
            "pkcs7": "internal/pkcs7", "pbkdf2": "internal/pbkdf2", "main": None}.get(name, "zz_seed_demo_pkg"), src


def main():
    wt, variant, prop, port = sys.argv[1], sys.argv[2], sys.argv[3], int(sys.argv[4])
    checks = None
    if "--checks" in sys.argv:
        checks = sys.argv[sys.argv.index("--checks") + 1].split(",")
    # the agent's deliverables are moved out of the worktree first (a seed/ directory with *_test.go
    # files would be picked up by `go test ./...`)
    outbase = os.path.join(os.path.dirname(os.path.abspath(wt)), "out")
    outroot = os.path.join(outbase, prop)
    if os.path.isdir(os.path.join(wt, "seed")):
        shutil.rmtree(outroot, ignore_errors=True)
        os.makedirs(outbase, exist_ok=True)
        shutil.move(os.path.join(wt, "seed"), outroot)
    sd = os.path.join(outroot, variant)
    meta = {"property": prop, "variant": variant, "evaluated_at": time.strftime("%Y-%m-%dT%H:%M:%SZ", time.gmtime())}
    rc, out = sh("git rev-parse --short HEAD", cwd=ROOT)
    meta["verif_commit"] = out.strip()
    patch = os.path.join(sd, "patch.diff")
    if not os.path.exists(patch):
        print("no patch at", patch)
        sys.exit(2)
    demo = None
    for cand in ("demo_test.go", "demo.go", "main.go"):
        if os.path.exists(os.path.join(sd, cand)):
            demo = os.path.join(sd, cand)
            break
    sh("git checkout -- . && git clean -fdq", cwd=wt)
    base = json.load(open("/root/.vp/BASELINE.json"))
    stable = set(base["stable_pass"])

    # 1a. patch applies and builds
    rc, out = sh("git apply --whitespace=nowarn %s" % patch, cwd=wt)
    meta["patch_applies"] = rc == 0
    if rc != 0:
        meta["error"] = out[-500:]
    rc, out = sh("go build ./... && go vet ./... >/dev/null 2>&1; go test -count=1 -run '^$' ./... ", cwd=wt)
    meta["builds"] = rc == 0
    # 1b. suite
    if meta["patch_applies"] and meta["builds"]:
        passed, failed, bf = suite_failures(wt, port)
        lost = sorted(stable - passed)
        meta["suite_lost_baseline_tests"] = lost[:20]
        meta["suite_ok"] = len(lost) == 0 and not bf
    # 1c. demonstration
    demo_dst = None
    if demo and meta.get("builds"):
        d, src = pkg_dir(demo)
        tests = re.findall(r"^func (Test\w+)\(", src, re.M)
        tag = re.search(r"^//go:build\s+(\w+)\s*$", src, re.M)
        tagflag = ("-tags %s " % tag.group(1)) if tag else ""
        readme = ""
        if os.path.exists(os.path.join(sd, "README.md")):
            readme = open(os.path.join(sd, "README.md"), errors="replace").read()
        if re.search(r"go test[^\n]*-race", readme):
            tagflag += "-race "  # the demonstration is a data race: it only shows under the race detector
        if d is None:
            demo_cmd = "go run %s" % demo
        else:
            os.makedirs(os.path.join(wt, d), exist_ok=True)
            demo_dst = os.path.join(wt, d, "zz_seed_demo_test.go")
            shutil.copy(demo, demo_dst)
            demo_cmd = "TEST_BASEPORT=%d TEST_BASEPORT_SMTP=%d go test %s-vet=off -count=1 -timeout 300s -run '^(%s)$' ./%s" % (port + 600, port + 1600, tagflag, "|".join(tests) or "TestDemo", d)
        rc1, out1 = sh(demo_cmd, cwd=wt, timeout=600)
        meta["demo_cmd"] = demo_cmd
        meta["demo_fails_with_patch"] = rc1 != 0
        meta["demo_output_with_patch"] = out1[-1500:]
        sh("git apply -R --whitespace=nowarn %s" % patch, cwd=wt)
        rc2, out2 = sh(demo_cmd, cwd=wt, timeout=600)
        meta["demo_passes_without_patch"] = rc2 == 0
        if rc2 != 0:
            meta["demo_output_without_patch"] = out2[-1500:]
        if demo_dst and os.path.exists(demo_dst):
            os.remove(demo_dst)
    sh("git checkout -- . && git clean -fdq", cwd=wt)
    meta["confirmed"] = bool(meta.get("patch_applies") and meta.get("builds") and meta.get("suite_ok") and meta.get("demo_fails_with_patch") and meta.get("demo_passes_without_patch"))

    # 2. run the checks against /repo with the patch applied
    results = {}
    scratch = None
    if "--revert" in sys.argv or "--inplace" not in sys.argv:
        # The patch was written for a tree in which a later "fix:" commit rewrote the very lines it
        # changes. It is judged on a scratch copy of /repo's HEAD with that one commit reverted (outside
        # /repo, removed afterwards); VERIF_GEN_EXCLUDE names the generator element that shows the defect
        # the reverted commit repaired, so that only the seeded change can raise an alarm.
        # Without --revert the scratch copy is simply /repo's HEAD plus the patch (the default since round 6:
        # /repo itself stays untouched, so several seeds can be judged at once; --inplace applies to /repo).
        rev = sys.argv[sys.argv.index("--revert") + 1] if "--revert" in sys.argv else None
        scratch = "/tmp/seedrepo-%d" % os.getpid()
        sh("git -C /repo worktree add --detach %s HEAD" % scratch)
        rc1, out1 = (0, "")
        if rev:
            rc1, out1 = sh("git revert --no-commit %s" % rev, cwd=scratch)
        rc2, out2 = sh("git apply --whitespace=nowarn %s" % patch, cwd=scratch)
        if rev:
            meta["judged_on"] = "scratch copy of /repo HEAD with %s reverted (%s)" % (rev, "ok" if rc1 == 0 and rc2 == 0 else (out1 + out2)[-300:])
        elif rc2 != 0:
            meta["repo_apply_error"] = out2[-400:]
        if rc1 == 0 and rc2 == 0 and (meta["confirmed"] or "--force" in sys.argv):
            e = dict(ENV, VERIF_REPO=scratch)
            if "--exclude" in sys.argv:
                e["VERIF_GEN_EXCLUDE"] = sys.argv[sys.argv.index("--exclude") + 1]
                meta["judged_on"] += "; generator element excluded: " + e["VERIF_GEN_EXCLUDE"]
            man = json.load(open(os.path.join(ROOT, "MANIFEST.json")))
            ids = [c["property_id"] for c in man["checks"]]
            if checks:
                ids = [i for i in ids if i in checks]
            for i in sorted(ids, key=lambda i: (i != prop, i)):
                if "--own-first" in sys.argv and i != prop and results.get(prop, {}).get("violation"):
                    break  # caught by its own check: the other checks are not run (saves ~2 min per seed)
                t0 = time.time()
                rc, out = sh("./check %s" % i, cwd=ROOT, env=e, timeout=3000)
                viol = [l for l in out.splitlines() if l.startswith("VIOLATION")]
                detail = [l for l in out.splitlines() if l.startswith("DETAIL")]
                results[i] = {"exit": rc, "violation": bool(viol), "detail": (detail[0][:400] if detail else ""), "wall_s": round(time.time() - t0, 1)}
                print("  %s exit=%d %s" % (i, rc, detail[0][:160] if detail else ""))
        sh("git -C /repo worktree remove --force %s" % scratch)
        shutil.rmtree(scratch, ignore_errors=True)
    elif meta["confirmed"] or "--force" in sys.argv:
        rc, out = sh("git status --porcelain", cwd="/repo")
        if out.strip():
            print("/repo is not clean; refusing")
            sys.exit(2)
        rc, out = sh("git apply --whitespace=nowarn %s" % patch, cwd="/repo")
        if rc == 0:
            try:
                man = json.load(open(os.path.join(ROOT, "MANIFEST.json")))
                ids = [c["property_id"] for c in man["checks"]]
                if checks:
                    ids = [i for i in ids if i in checks]
                # the property's own check first
                ids = sorted(ids, key=lambda i: (i != prop, i))
                for i in ids:
                    t0 = time.time()
                    rc, out = sh("./check %s" % i, cwd=ROOT, timeout=3000)
                    viol = [l for l in out.splitlines() if l.startswith("VIOLATION")]
                    detail = [l for l in out.splitlines() if l.startswith("DETAIL")]
                    results[i] = {"exit": rc, "violation": bool(viol), "detail": (detail[0][:400] if detail else ""), "wall_s": round(time.time() - t0, 1)}
                    print("  %s exit=%d %s" % (i, rc, detail[0][:160] if detail else ""))
            finally:
                sh("git checkout -- .", cwd="/repo")
                # evidence files were rewritten by runs on a modified tree: restore the committed ones
                sh("git checkout -- evidence", cwd=ROOT)
                shutil.rmtree(os.path.join(ROOT, "replays"), ignore_errors=True)
        else:
            meta["repo_apply_error"] = out[-400:]
    meta["checks"] = results
    meta["caught_by"] = sorted(k for k, v in results.items() if v["violation"])
    meta["inconclusive"] = sorted(k for k, v in results.items() if v["exit"] == 2)

    # 3. store
    name = "%s-%s" % (prop, variant)
    if "--name" in sys.argv:
        name = sys.argv[sys.argv.index("--name") + 1]
    dst = os.path.join(DEST, name)
    os.makedirs(dst, exist_ok=True)
    prev = os.path.join(dst, "meta.json")
    if os.path.exists(prev):
        try:
            old = json.load(open(prev))
            hist = old.pop("history", [])
            hist.append({"verif_commit": old.get("verif_commit"), "evaluated_at": old.get("evaluated_at"), "caught_by": old.get("caught_by"), "inconclusive": old.get("inconclusive")})
            meta["history"] = hist
            # a run restricted to some checks keeps the other results of the previous run
            if checks:
                merged = dict(old.get("checks", {}))
                merged.update(results)
                meta["checks"] = merged
                meta["caught_by"] = sorted(k for k, v in merged.items() if v["violation"])
                meta["inconclusive"] = sorted(k for k, v in merged.items() if v["exit"] == 2)
        except Exception:
            pass
    shutil.copy(patch, os.path.join(dst, "patch.diff"))
    if demo:
        shutil.copy(demo, os.path.join(dst, os.path.basename(demo)))
    if os.path.exists(os.path.join(sd, "README.md")):
        shutil.copy(os.path.join(sd, "README.md"), os.path.join(dst, "AGENT_README.md"))
    json.dump(meta, open(os.path.join(dst, "meta.json"), "w"), indent=1)
    print("%s-%s confirmed=%s caught_by=%s" % (prop, variant, meta["confirmed"], meta["caught_by"]))


if __name__ == "__main__":
    main()
