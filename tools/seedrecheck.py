#!/usr/bin/env python3
"""Re-evaluates stored seeded changes against the current harness.

  tools/seedrecheck.py [--all-checks] [--jobs N] <seed-name> ...

For each /verif/seeded/<name>/patch.diff: a scratch worktree of /repo's HEAD is created under /tmp,
the patch is applied there, the property's own quick check is run with VERIF_REPO pointing at it
(no evidence is written in that mode); when the own check stays silent (or with --all-checks) every
other quick check is run as well. meta.json keeps the confirmation fields of the first evaluation
and gets the new results (the previous ones move to `history`). The worktree is removed afterwards.
Seeds whose meta.json says they were judged on a tree with a commit reverted are re-judged the same way.
"""
import json, os, re, shutil, subprocess, sys, time
from concurrent.futures import ThreadPoolExecutor

ROOT = os.path.dirname(os.path.dirname(os.path.abspath(__file__)))
DEST = os.path.join(ROOT, "seeded")
ENV = dict(os.environ, GOFLAGS="-mod=mod", GOPROXY="off", GOSUMDB="off", GOTOOLCHAIN="local")


def sh(cmd, cwd=None, env=None, timeout=3000):
    p = subprocess.run(cmd, shell=True, cwd=cwd, env=env or ENV, stdout=subprocess.PIPE, stderr=subprocess.STDOUT, text=True, timeout=timeout)
    return p.returncode, p.stdout


def one(name, allchecks):
    d = os.path.join(DEST, name)
    meta = json.load(open(os.path.join(d, "meta.json")))
    prop = meta["property"]
    scratch = "/tmp/sr-%s-%d" % (name, os.getpid())
    sh("git -C /repo worktree add --detach %s HEAD" % scratch)
    try:
        env = dict(ENV, VERIF_REPO=scratch)
        j = meta.get("judged_on", "")
        m = re.search(r"HEAD with (\w+) reverted", j)
        if m:
            rc, out = sh("git revert --no-commit %s" % m.group(1), cwd=scratch)
            if rc != 0:
                return name, "revert failed: " + out[-200:]
            m2 = re.search(r"generator element excluded: (\S+)", j)
            if m2:
                env["VERIF_GEN_EXCLUDE"] = m2.group(1)
        rc, out = sh("git apply --whitespace=nowarn %s" % os.path.join(d, "patch.diff"), cwd=scratch)
        if rc != 0:
            return name, "patch does not apply: " + out[-200:]
        man = json.load(open(os.path.join(ROOT, "MANIFEST.json")))
        ids = [c["property_id"] for c in man["checks"]]
        ids = sorted(ids, key=lambda i: (i != prop, i))
        results = {}
        for i in ids:
            if i != prop and not allchecks and results.get(prop, {}).get("violation"):
                break
            t0 = time.time()
            rc, out = sh("./check %s" % i, cwd=ROOT, env=env)
            viol = [l for l in out.splitlines() if l.startswith("VIOLATION")]
            detail = [l for l in out.splitlines() if l.startswith("DETAIL")]
            results[i] = {"exit": rc, "violation": bool(viol), "detail": (detail[0][:400] if detail else ""), "wall_s": round(time.time() - t0, 1)}
        hist = meta.pop("history", [])
        hist.append({"verif_commit": meta.get("verif_commit"), "evaluated_at": meta.get("evaluated_at"), "caught_by": meta.get("caught_by"), "inconclusive": meta.get("inconclusive")})
        meta["history"] = hist
        merged = dict(meta.get("checks", {}))
        merged.update(results)
        meta["checks"] = merged
        meta["caught_by"] = sorted(k for k, v in merged.items() if v["violation"])
        meta["inconclusive"] = sorted(k for k, v in merged.items() if v["exit"] == 2)
        meta["evaluated_at"] = time.strftime("%Y-%m-%dT%H:%M:%SZ", time.gmtime())
        meta["verif_commit"] = sh("git rev-parse --short HEAD", cwd=ROOT)[1].strip()
        meta["rechecked_with"] = "tools/seedrecheck.py (scratch worktree of /repo HEAD + patch, VERIF_REPO)"
        json.dump(meta, open(os.path.join(d, "meta.json"), "w"), indent=1)
        own = results.get(prop, {})
        return name, "own=%s caught_by=%s %s" % ("yes" if own.get("violation") else "NO(exit %s)" % own.get("exit"), meta["caught_by"], own.get("detail", "")[:140])
    finally:
        sh("git -C /repo worktree remove --force %s" % scratch)
        shutil.rmtree(scratch, ignore_errors=True)


def main():
    args = sys.argv[1:]
    allchecks = "--all-checks" in args
    jobs = 1
    if "--jobs" in args:
        jobs = int(args[args.index("--jobs") + 1])
        del args[args.index("--jobs"):args.index("--jobs") + 2]
    names = [a for a in args if not a.startswith("--")]
    with ThreadPoolExecutor(max_workers=jobs) as ex:
        for name, res in ex.map(lambda n: one(n, allchecks), names):
            print(name, res, flush=True)
    shutil.rmtree(os.path.join(ROOT, "replays"), ignore_errors=True)


if __name__ == "__main__":
    main()
