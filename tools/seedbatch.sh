#!/bin/bash
# usage: tools/seedbatch.sh C02 C04 ...   evaluates seed a and b of each property sequentially
# SEEDPORT (default 14000) is the base port of the suite run; SEEDEVAL_FLAGS are passed on (e.g. --own-first)
# SEEDROOT (default /tmp/seed) holds the worktrees wt-<ID>; SEEDTAG (default empty) is put in front of the variant in the name
here=$(cd "$(dirname "$0")" && pwd)
root=${SEEDROOT:-/tmp/seed}
tag=${SEEDTAG:-}
for id in "$@"; do
  for v in a b; do
    if [ -d $root/wt-$id/seed/$v ] || [ -d $root/out/$id/$v ]; then
      echo "=== $id-$tag$v $(date +%H:%M:%S)"
      python3 "$here/seedeval.py" $root/wt-$id $v $id ${SEEDPORT:-14000} --name $id-$tag$v $SEEDEVAL_FLAGS 2>&1 | tail -25
    fi
  done
done
echo "=== batch done"
