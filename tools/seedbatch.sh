#!/bin/bash
# usage: tools/seedbatch.sh C02 C04 ...   evaluates seed a and b of each property sequentially
here=$(cd "$(dirname "$0")" && pwd)
for id in "$@"; do
  for v in a b; do
    if [ -d /tmp/seed/wt-$id/seed/$v ] || [ -d /tmp/seed/out/$id/$v ]; then
      echo "=== $id-$v $(date +%H:%M:%S)"
      python3 "$here/seedeval.py" /tmp/seed/wt-$id $v $id 14000 2>&1 | tail -25
    fi
  done
done
echo "=== batch done"
