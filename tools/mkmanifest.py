#!/usr/bin/env python3
"""Regenerates /verif/MANIFEST.json from the table below (kept in one place so that the manifest,
the driver and DESIGN.md stay consistent). Run with python3-vt to also validate against the schema."""
import json, os, sys
ROOT = os.path.dirname(os.path.dirname(os.path.abspath(__file__)))
props = [json.loads(l) for l in open(os.path.join(ROOT, "properties.jsonl"))]

# id -> (category, technique, level text, level note, design ref)
CLAIMED = {
 "C01": ("exploration",
         "rapid-generated builder programs rendered with Msg.WriteTo and read back by an independent MIME reader (model-based round trip: leaf list, nesting, boundaries, decoded bytes), cross-checked against net/mail + mime/multipart; plus exhaustive enumeration of all small shape tuples; one case in six is rendered after another message failed to render in the same process; caller-chosen boundaries for programs with one multipart level; thorough adds a native fuzz target over the rapid generator (rapid.MakeFuzz); one case in six re-encodes a body part through Part.SetEncoding after the first render and renders again",
         "Generated-input search against a reference model of the expected leaves. All (parts 0..3 x embeds 0..3 x attachments 0..3 x 3 encodings x 3 content classes) shape tuples are enumerated completely; everything else (contents, per-leaf options, sources) is sampled, so absence of violations is statistical.",
         "The harness' own MIME reader is the oracle (disagreement with the stdlib readers is reported as a harness error, never as a violation). QP text is generated with CRLF/LF breaks only; caller-chosen boundaries only for programs with one multipart level (WithBoundary's documented domain).",
         "DESIGN.md section 3, C01"),
 "C02": ("exploration",
         "rapid-generated hostile strings (CR/LF injection payloads with markers, NUL/control, invalid UTF-8, specials, encoded-word lookalikes, printf/template tokens, long words) fed to every text-accepting setter, plus the complete product of 22 setters x ~75 single hostile strings x 2 encoders x 4 shapes; oracle: strict RFC 5322 header-section scan (field multiset == model), RFC 2047 decode == string set, own address parser, leaf content unchanged; charset labels of encoded-words are interpreted (ISO-8859-1/US-ASCII), blank-free tokens up to 4000 characters; thorough adds a native fuzz target over the rapid generator; no bare CR or LF in any header section (what a lenient reader such as net/mail would take for a line end); part descriptions also through Part.SetDescription on an existing part",
         "Generated-input search against a model of the expected header fields of every section. The setter x single-hostile-string product is enumerated completely; combinations are sampled.",
         "*Preformatted setters and header names are out of scope by the property's statement. Values that consist of printable ASCII and contain encoded-word syntax are a recorded known finding (ew-lookalike-verbatim) and are excluded by signature, counted in the evidence.",
         "DESIGN.md section 3, C02"),
 "C03": ("fault_enumeration",
         "rapid-generated histories: batches of generated messages x injected render faults (producer failing before/inside/after its content, deleted attachment file) x an unsignable S/MIME key (render fails before the first byte) x transport faults (drop after k DATA bytes) x reply scripts; oracle: commit log of the reference server vs. the harness' own reference rendering, IsDelivered/HasSendError vs. the 2yz end-of-data replies actually sent; producer faults also inside the caller's io.ReadSeeker behind the library's own producer (failing read/rewind, io.EOF-flavoured errors); a retry act sends every undelivered message again once the fault is gone; the caller's context cancelled at the 354; positive replies spread over three lines",
         "TestC03Enum enumerates, for batches of 1, 2 and 3 messages: every step id x {4yz, 5yz, drop}, every producer x {before, mid, after}, their product for the 3-batch, and a drop at every 40th content byte; everything else is sampled by rapid.",
         "The reference rendering is taken with Msg.WriteTo before the send (C11 checks that renders are repeatable); 8bit parts carry CRLF line breaks only; in-memory transport; watchdog time-outs are inconclusive.",
         "DESIGN.md section 3, C03"),
 "C04": ("fault_enumeration",
         "reply-script fault injection against a strict reference SMTP server (own RFC 5321 parser + transaction automaton): exhaustive <= 1-fault (thorough: also 2-fault) scripts at every step id of the fault-free session per capability subset, every rejected MAIL/RCPT/DATA combined with a refused abandoning RSET, plus rapid-generated multi-fault scripts/configurations; oracle: automaton accepts the session, parameter forms, reply-tag attribution; batches with recipient-less messages; the judged connection as the second one of a Client that first met a server advertising everything; an impatient client facing one positive reply that arrives late; messages whose rendering fails after DATA was accepted; multi-line positive and negative replies",
         "Every step id of the recorded fault-free dialogue is replaced by each of {4yz, 5yz, drop} for every capability subset (64 in thorough, 8 per seed in quick) x 2 client configurations: complete for <= 1 fault on those configurations; multi-fault scripts and other configurations are sampled by rapid.",
         "The reference server's strictness (Postfix-like) is the oracle; in-memory transport; pipelining is detected only when two commands arrive in one read. The SASL cancel line after a final AUTH reply is a recorded known finding.",
         "DESIGN.md section 3, C04"),
 "C05": ("exploration",
         "rapid-constructed addresses (dot-atom and quoted-string local parts over specials, blanks, UTF-8, parameter lookalikes), HELO names, credentials and DSN options; oracle: own strict RFC 5321 command/path/esmtp-param parser on every line the reference server receives, parsed paths == the mailbox the generator constructed; NOTIFY combinations incl. the ones RFC 3461 forbids; RET values as a configuration file might hold them (blanks, line breaks, lower case)",
         "Generated-input search with a grammar-based oracle; the generator constructs addresses (no rejection sampling) and knows the expected mailbox without asking net/mail. Sampled, not exhaustive.",
         "A HELO name that is a single token but not a syntactically valid domain is not judged (not smuggling); UTF-8 local parts are accepted regardless of SMTPUTF8; an abandoned transaction (no DATA) counts as a refusal.",
         "DESIGN.md section 3, C05"),
 "C06": ("exploration",
         "model-based testing: rapid-generated sequences of address-setting calls executed against Msg and against a reference model of the To/Cc/Bcc/From/EnvelopeFrom/ReplyTo lists, followed by render (own RFC 5322 reader, Bcc-token search in raw and decoded bytes) and send (MAIL/RCPT lines at the reference server); an intermediate render as an action, display names with runes strconv does not consider printable; thorough adds a native fuzz target over the rapid generator; a failed hand-over to a local sendmail command as an action; one case in six the server refuses the k-th RCPT; local parts that must be quoted; display names compared exactly",
         "Generated call histories against an explicit reference model; sampled by rapid.",
         "For *IgnoreInvalid the model only demands a subsequence of the valid inputs that contains every valid ASCII-named input (what happens to valid non-ASCII names is not fixed by the property) and follows the getter there.",
         "DESIGN.md section 3, C06"),
 "C07": ("fault_enumeration",
         "exhaustive product of TLS policy x 13 auth types x host kind x server behaviour (STARTTLS advertised/refused/garbled, certificate valid/wrong-name/untrusted, garbage handshake, AUTH lists) over real TCP with the default dialers and the client's default tls.Config; oracle: byte-exact cleartext tap scanned for non-permitted commands and for every encoding of the per-case random credentials; plus 18 host names around the localhost rule over in-memory connections, plus implicit TLS with a fallback port (plain-text server on port 25); lifecycle cases: the policy established by setter sequences, and the judged call as the second connection of one Client; implicit TLS followed by a STARTTLS policy in any order; default-port cases (fallback port left behind by a port policy); policy changed between two connections; a tls.Config without ServerName shared with a Client for another host",
         "The configuration product is enumerated completely in both tiers (quick: 2 advertised AUTH lists, thorough: 7); credentials are fresh random tokens per case.",
         "Real TCP on 127.0.0.1/127.0.0.2; the harness CA is installed as the only system root through SSL_CERT_FILE so that the client's default verification is what is tested; server behaviours are the enumerated ones, not arbitrary byte streams.",
         "DESIGN.md section 3, C07"),
 "C08": ("exploration",
         "rapid-generated message programs x key types x issuer hashes (SHA-256/384/512 on the signer certificate) x chain shapes x signing APIs, each rendered twice (optionally after a failed render, optionally with an alternative added in between); oracle: own MIME reader + own CMS SignedData verifier (encoding/asn1 + crypto/*): structure, SHA-256 of the first part exactly as emitted == message-digest attribute, DER SET order, signature under the carried signer certificate, intermediate carried iff given, leaves of the signed entity == model, identical signed entity across renders; caller-chosen boundaries (one multipart level); a concurrent variant (2..8 goroutines sign and render fresh messages with one shared key pair at the same time); a middleware that rewrites the first body part or the subject on every render; full-chain key pairs (leaf + issuing CA + root); signer and issuing CA with equal serial numbers",
         "Generated-input search with an independent verifier as oracle; sampled.",
         "The CMS verifier is the harness' own (validated by the cases that verify, and in the thorough tier by a differential sample: one accepted render in four is also handed to `openssl smime -verify -noverify` when an openssl binary exists - which first has to reject a tampered copy); certificate path validation to a trust anchor is not part of the property; contents are in canonical CRLF form.",
         "DESIGN.md section 3, C08"),
 "C09": ("exploration",
         "grammar-based EML generator + structure-aware mutations + renderings of generated messages + arbitrary bytes, under six reader behaviours (rapid); repository fixtures and a hostile-constant corpus under every reader behaviour; thorough adds native coverage-guided fuzzing (go test -fuzz) with the oracle inside the target; oracle: returns without panic within a generous wall-clock bound; dictionary with RFC 822 comments, stray parentheses, address groups, RFC 2231 parameters; unlisted transfer encodings; readers that fail persistently with a time-out error",
         "Generated-input search for crashes and hangs; sampled. Native fuzzing cannot be pinned to a seed: its campaigns are evidence of effort, its crashers are the reproducible artefact.",
         "Inputs up to 64 KiB; termination is observed (10 s bound, three orders of magnitude above normal, must repeat three times in a row), not proved.",
         "DESIGN.md section 3, C09"),
 "C10": ("exploration",
         "round-trip property over rapid-generated message programs within the parser's feature set: build -> render -> EMLToMsgFromReader -> compare getters with the generator's model -> render again -> independent MIME reader compares leaves and checks header sections for duplicated fields; thorough adds a native fuzz target over the rapid generator; text that begins with a byte order mark",
         "Generated-input search with a model/round-trip oracle; sampled.",
         "Subject and display names are compared exactly except for white space at their two ends; the parser's collapsing of a white-space run that the writer folded inside (net/textproto) is a recorded known finding (parser-collapses-ws-at-fold), a writer-side loss is not excused. A file's declared content type and chosen transfer encoding are not required to survive; descriptions and caller-chosen content-ids are outside the parser's feature set; 7bit/8bit contents are generated legal for those encodings.",
         "DESIGN.md section 3, C10"),
 "C11": ("exploration",
         "rapid-generated message programs (one in five S/MIME-signed) x generated histories of render operations (WriteTo, Write, NewReader, UpdateReader incl. partly-read readers, WriteToFile, WriteToTempFile, Send to the reference server, failed renders by sink or producer fault); metamorphic oracle: every successful output is byte-identical to the first; producer faults also inside the caller's io.ReadSeeker behind the library's own producer; WriteToFile also onto an existing, longer file; thorough adds a native fuzz target over the rapid generator; a prefix through Read and the rest through io.Copy",
         "Generated histories against a byte-equality oracle; shapes, file sources/encodings and op sequences are sampled by rapid. Map-order dependent differences need several renders to show, so every history renders at least 4 times.",
         "Send is compared modulo what DATA does to any content (exact model of textproto's dot-writer); for S/MIME-signed histories the per-render outer boundary is masked and the signature part ignored; a transmitted copy is never the reference.",
         "DESIGN.md section 3, C11"),
 "C12": ("fault_enumeration",
         "rapid-generated message programs x exhaustive sink-offset fault injection (every byte offset, two sink modes, first/second render, also S/MIME-signed) + producer fault injection (custom writers failing at an offset, on-disk attachment files deleted); oracle: no panic, err != nil, returned count == bytes accepted by the sink; producer faults also inside the caller's io.ReadSeeker behind the library's own producer (failing read, failing rewind) and with io.EOF-flavoured error values; batches of up to 40 producer-fault programs per case (TestC12Prod); preformatted and long generic headers in the programs; producers failing on one invocation only; fs.FS-backed files that vanish before the render",
         "For every generated message program the check enumerates EVERY byte offset at which the destination can start failing (complete for that program) and injects producer failures; the programs themselves are sampled by rapid, so the guarantee is exhaustive per shape and statistical across shapes.",
         "Sinks obey the io.Writer contract and keep failing once they failed; shapes limited to 0..3 parts, 0..2 embeds, 0..2 attachments with contents <= 90 bytes.",
         "DESIGN.md section 3, C12"),
 "C13": ("exploration",
         "randomised concurrent stress under the Go race detector: rapid draws goroutine counts, call mixes (Send on the shared connection, batched Send, DialAndSend on the same Client), optional SMTP AUTH against verifying servers, optional refused messages and a disconnect on the abandoning RSET, server latency jitter plans and GOMAXPROCS; oracle: per-connection transaction automaton of the reference server, token pairing of envelope and content, exactly-once commit (or clean failure where the scenario injects faults), no call hanging, and absence of race reports; big messages whose own connection is cut inside DATA while the others go on; library-generated Message-IDs with a cold-start case (the first messages of the process are rendered by concurrent DialAndSend callers); overlapping first dials with STARTTLS and a caller-supplied tls.Config",
         "Exploration only: the harness does not control the Go scheduler; schedules are varied indirectly and the race detector sees only the executions that happen. Removing the lock that serialises Send is caught reliably; a window of a few instructions may be missed.",
         "-race build; in-memory transport; every race report counts as a violation (the detector has no false positives).",
         "DESIGN.md sections 3 (C13) and 6"),
 "C14": ("exploration",
         "differential testing of the client's SASL exchanges against independent reference verifiers written from the RFCs (PLAIN, LOGIN, CRAM-MD5, XOAUTH2, SCRAM-SHA-1/-256(-PLUS) with own PBKDF2 and the server's own channel-binding data), over rapid-generated credentials, wrong-credential twins, hand-verified normalisation pairs, salts, iteration counts, nonce suffixes, TLS 1.2/1.3, retries of one Auth value for every mechanism (SCRAM also against another salt) and a preparatory exchange with a since-rotated password; credentials changed through SetUsername/SetPassword between two dials of one Client; with debug logging on",
         "Generated-input search with reference implementations as oracle (validated on the RFC 5802, 7677 and 6070 test vectors); sampled.",
         "Unicode credentials are restricted to fixed points of SASLprep and PRECIS (no independent normaliser offline); NUL (and ^A for XOAUTH2) are not generated; SCRAM's local refusal of PRECIS-forbidden strings is a permitted outcome.",
         "DESIGN.md section 3, C14"),
 "C15": ("fault_enumeration",
         "bounded-exhaustive enumeration of adversarial server message sequences (alphabet of 15 valid/forged/replayed/empty/malformed/rogue SCRAM messages and final replies (incl. a server that does not know the password: iteration count 0 and a signature made from an all-zero SaltedPassword); also with an Auth object that completed an exchange on an earlier connection) driven through smtp.Client.Auth, judged by a reference tracker of the exchange (own RFC 5802 implementation); four fixed sequences with a well-formed server-first whose iteration count is 10000001",
         "Exhaustive for all sequences up to length 5 (PLUS: 4) in quick and 7 (PLUS: 6) in thorough over the stated alphabet, with pruning only after the client aborted or the exchange ended; for SCRAM-SHA-1/-256 and both PLUS variants over a real TLS 1.2 handshake.",
         "Fixed credentials and PBKDF2 iteration count 4; the alphabet is finite and chosen by the harness; the bare-235 acceptance is a recorded known finding (scram-bare-235), excluded by signature and counted.",
         "DESIGN.md section 3, C15"),
 "C16": ("exploration",
         "rapid-generated mechanisms x random secrets x server scripts (success, 535 / malformed challenge / disconnect at each exchange step, extra challenge) x logger kinds, through mail.Client and through the exported smtp.Client API (Auth with or without a prior Hello, optionally with Close() or SetDebugLog(true) happening between two steps), incl. scripts in which the write of the secret-bearing line fails; oracle: search of every captured log record for the secret in raw/hex/base64(3 alignments) form and for the secret-carrying SASL response lines the reference server recorded, plus presence of the post-auth MAIL line (window closed); LOGIN servers with their own wording of the prompts, an unparsable reply inside the exchange, use of the connection after a failed exchange; another goroutine's NOOP inside the exchange; secrets of up to 2400 characters",
         "Generated-input search with a leak-detection oracle driven by what the reference server actually received; sampled.",
         "Secrets are alphanumeric (so JSON escaping cannot hide them) and >= 12 characters (so needles cannot match by chance); user names and mechanism names are not treated as secrets.",
         "DESIGN.md section 3, C16"),
 "C17": ("fault_enumeration",
         "stall-point fault injection: the reference server goes silent at every enumerated step of the dial and send dialogues (incl. TLS handshake, AUTH challenges, inside DATA content with a bounded buffer) x TLS policy x auth class x call {DialWithContext, DialAndSend, Send, Reset} x timeout, also on a connection obtained through the fallback port, with WithoutNoop, and with a caller context whose own deadline is far away; oracle: the call returns a non-nil error within max(20 x timeout, 15 s), misses must repeat twice; a retry (Send/Reset) on the same Client after the call that timed out; a stall after 30/60 quick successful messages with a tight 3 s bound (accumulating deadlines); DialAndSend with an empty batch",
         "Complete for the enumerated stall points (one per command position per TLS mode and auth mechanism class); boundedness is observed with real clocks, not proved.",
         "Wall-clock oracle with a bound >= 20x the configured timeout and >= 15 s (crypto/tls may spend 5 s on close_notify when the peer stopped reading); in-memory transport with deadline support implemented by the harness.",
         "DESIGN.md section 3, C17"),
 "C18": ("exploration",
         "rapid-generated long/multi-word header values (occasionally with CR/LF/NUL), address lists, file names, bodies around the 57/76 wrapping points and adversarial producer chunkings, optionally after a failed render of another message in the same process; oracle: raw-line lint (CRLF, no bare CR/LF, <= 76 encoded body lines, <= 78 header lines unless unfoldable), unfold/decode == value set, metamorphic equality across chunkings; blank runs up to 80, caller-folded preformatted headers; caller-chosen boundaries of 23..47 characters",
         "Generated-input search with a line-discipline lint, a round trip on folded values and a metamorphic relation over producer chunkings; all sampled.",
         "Header lines > 78 with a folding opportunity inside MIME *part* headers (written through multipart.CreatePart) are a recorded known finding (part-header-unfolded), excluded by signature and counted; the 78 rule is enforced without exception on top-level header sections, all other rules on all sections and bodies.",
         "DESIGN.md section 3, C18"),
 "C19": ("fault_enumeration",
         "enumeration of every failure point (each step id of the recorded fault-free dialogue x {4yz, 5yz, drop, garbage}, missing STARTTLS/AUTH, foreign mechanisms, untrusted certificate) across TLS policies x auth types x DialWithContext/DialAndSend, plus rapid multi-fault scripts, plus the same failure points over real TCP with the default dialers; oracle: Close was called on the tracking net.Conn handed out through WithDialContextFunc (TCP: server-side end of connection within 2 s); handshakes that fail after a successful TCP connect (default dialers); the caller's context cancelled while the dial dialogue is in flight; transports without deadline support; HELO names refused locally after the connection was opened",
         "The enumerated space (policy x auth x capability variant x call x step x outcome) is covered completely in thorough (garbage replies only at greet/starttls in quick); multi-fault scripts are sampled.",
         "Primary oracle: Close on in-memory tracking connections injected through WithDialContextFunc. Secondary oracle (213 cases): real TCP with the default dialers incl. implicit TLS, the reference server must see the connection end within 2 s of the return, GC switched off.",
         "DESIGN.md section 3, C19"),
 "C20": ("fault_enumeration",
         "reply injection (codes 400..599 x text kinds x positions MAIL/RCPT subset/DATA/end-of-data/RSET x batches x ESC advertised or not) against the reference server; oracle: a model computed from the replies the server actually sent (reason, code, temporariness, enhanced code, rejected recipients, per-message and joined errors); two connections of one Client held at once (the other one advertising the opposite of ENHANCEDSTATUSCODES); thorough adds a native fuzz target over the rapid generator; a refused abandoning RSET (connection given up, later messages are failed messages)",
         "Thorough enumerates all 200 reply codes x 5 positions x ENHANCEDSTATUSCODES on/off x 4 text kinds for a single message completely; batches with several faults are sampled by rapid (quick: sampled only).",
         "Only reply outcomes are injected (no disconnects); the recipients listed are read from SendError.Error() because the type exposes them nowhere else.",
         "DESIGN.md section 3, C20"),
}

NOT_YET = "check not built yet (work in progress; planned in DESIGN.md section 3)"
NA = {}


# appended to the technique text of a property (additions of later sessions)
TECH_ADD = {
 "C09": "; numeric edge values for priority-/version-/length-like headers; the file entry point with unreadable paths",
 "C17": "; a second DialWithContext on a Client whose established connection has gone silent",
 "C19": "; overlapping DialWithContext calls on one Client (open connections <= successful calls)",
 "C04": "; WithoutNoop configurations",
 "C01": "; one case in four edits the message after building (UnsetAll*/SetAttachments/SetEmbeds with permuted or shortened lists, Part.Delete/SetContentType/SetCharset/SetContent/SetWriteFunc, SetBoundary) with the model following, one in four renders the same Msg a second time; RFC 2231 extended file-name parameters are decoded and judged like the plain ones; message charsets through WithCharset; files from an embed.FS",
 "C02": "; the deprecated SetHeader/SetHeaderPreformatted aliases; RFC 2231 extended parameters judged like the plain ones",
 "C03": "; file-system sources whose Read fails after a successful Open (a directory in place of the file, a caller's fs.FS reporting an error mid-way)",
 "C05": "; invisible and space runes (U+00A0, U+3000, U+200B, U+FEFF) in quoted local parts; the exported smtp.Client API driven directly with raw strings (Hello, Verify, SetDSN*Option, Mail, Rcpt) against a command-sequence oracle",
 "C06": "; blind copies for the mailbox of a visible recipient (also in another capitalisation)",
 "C07": "; authentication replaced through SetSMTPAuth/SetSMTPAuthCustom after a password-revealing one; a second DialWithContext without closing the first connection, which is judged under the tightened policy from that moment on; AUTH lists carrying the library's own type names; the package-level QuickSend",
 "C08": "; the signer configured again between two renders (other key type, intermediate added/dropped, same pair); message-level Content-* fields",
 "C10": "; library-generated extra fields (importance, bulk, organisation, MDN, custom X- headers) must survive the round trip without being multiplied",
 "C11": "; the caller comes back to the buffers/readers it attached between two renders",
 "C12": "; destinations that also implement Flush/WriteString/ReadFrom and report io.ErrShortWrite/io.ErrClosedPipe/io.EOF; file-system sources failing in Read",
 "C14": "; second connections that resume the TLS session of the first (ClientSessionCache), incl. the PLUS variants",
 "C15": "; server-final with the RFC 5802 server-error attribute instead of a signature; two exchanges of one mail.Client at a time, the peer of one replaying the other's server signature; a caller password the profile refuses with a reused Auth value against a server holding the empty password",
 "C16": "; logging configured through the Client setters, auth-data logging switched off again; SCRAM passwords the profile refuses (needles: alphanumeric stretches, robust against %q/JSON escaping)",
 "C18": "; long blank-free words with commas/semicolons/parentheses",
 "C20": "; errors.Is against a named step and SendError.MessageID; nil entries in the batch",
}

checks = []
for p in props:
    pid = p["id"]
    if pid in CLAIMED:
        cat, tech, text, note, ref = CLAIMED[pid]
        tech = tech + TECH_ADD.get(pid, "")
        checks.append({
            "property_id": pid,
            "quick_cmd": "./check %s --tier quick" % pid,
            "thorough_cmd": "./check %s --tier thorough" % pid,
            "evidence_file": "/verif/evidence/%s.json" % pid,
            "replay_cmd_template": "./check %s --replay {path}" % pid,
            "engine": "harness",
            "level_claimed": {"category": cat, "text": text, "design_ref": ref},
            "level_note": note,
            "technique": tech,
        })
man = {
 "version": 1,
 "setup_cmd": "./setup.sh",
 "hooks": {"guard": "verif",
           "enable": "go test -tags verif; the harness module replaces github.com/wneessen/go-mail with /repo. No source hook exists: the tag is reserved and passed on every build.",
           "baseline_off_cmd": "./baseline_off.sh", "source_commits": [], "add_only": True},
 "engines": [
  {"name": "harness", "path": "/verif/harness", "serves_properties": sorted(CLAIMED),
   "kind_free_text": "Go module (pgregory.net/rapid v1.3.0 generators and state machines, bounded exhaustive enumerators, fault-injecting sinks/producers/servers, independent MIME/SMTP/SASL/CMS oracles) driven by ./check"},
 ],
 "checks": checks,
 "notes": "All checks are property-based tests / fault enumerations against explicit oracles; see DESIGN.md. Known findings are listed in known_findings.json.",
 "not_applicable": [{"property_id": p["id"], "reason": NA.get(p["id"], NOT_YET)} for p in props if p["id"] not in CLAIMED],
}
json.dump(man, open(os.path.join(ROOT, "MANIFEST.json"), "w"), indent=1)
try:
    import jsonschema
    jsonschema.validate(man, json.load(open("/root/.vp/MANIFEST.schema.json")))
    print("MANIFEST.json valid;", len(checks), "checks claimed")
except ImportError:
    print("MANIFEST.json written (jsonschema not importable; run with python3-vt to validate)")
