#!/bin/bash
# usage: tools/trymutant.sh <property> <sed-expression> <file-in-repo> : applies a one-line mutation, runs the quick check, reverts
pid=$1; expr=$2; file=$3
cd /repo && sed -i "$expr" "$file" && if git diff --quiet; then echo "MUTATION DID NOT APPLY"; exit 3; fi
export GOFLAGS=-mod=mod GOPROXY=off GOSUMDB=off GOTOOLCHAIN=local
if ! go build ./... 2>/tmp/mut.err; then echo "MUTANT DOES NOT COMPILE"; head -5 /tmp/mut.err; git checkout -- .; exit 3; fi
cd /verif && ./check $pid 2>&1 | grep -E "^(VIOLATION|DETAIL|INCONCLUSIVE|$pid tier)" | cut -c1-260
git -C /repo checkout -- .
