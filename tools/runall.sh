#!/bin/bash
# runs every claimed check's quick (or given) tier and prints one line per property
cd "$(dirname "$0")/.."
tier=${1:-quick}
for p in $(python3 -c "import json;print(' '.join(c['property_id'] for c in json.load(open('MANIFEST.json'))['checks']))"); do
  out=$(./check $p --tier $tier 2>&1); rc=$?
  echo "$p rc=$rc $(echo "$out" | grep -E "^$p tier" )"
  echo "$out" | grep -E '^VIOLATION|^INCONCLUSIVE|^DETAIL' | head -3
done
